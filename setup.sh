#!/bin/bash
# setup: build every library flavour and harness binary once, offline, from files on disk
set -e
cd "$(dirname "$0")"
for f in asan asan-grow plain tsan; do ./build.sh $f >/dev/null & done; wait
./mk.sh asan bx >/dev/null; ./mk.sh asan-grow bx >/dev/null; ./mk.sh asan hx >/dev/null; ./mk.sh asan kx >/dev/null; ./mk.sh plain sx >/dev/null; ./mk.sh tsan sx >/dev/null
echo setup ok
