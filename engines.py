# engines.py -- per-property engines behind ./check
import json, os, sys, time, subprocess, re, hashlib, collections
import vlib
from vlib import VERIF

REPLAYS = os.environ.get('VERIF_REPLAY_DIR', os.path.join(VERIF, 'replays'))
SCRATCH = os.path.join(VERIF, 'build', 'scratch')


def log(*a):
    print(*a, flush=True)


class Result:
    """accumulates failures, applies known findings, verifies witnesses by replay, prints verdict lines"""

    def __init__(self, prop):
        self.prop = prop
        # replays of this property are rewritten by every run
        import glob
        for old in glob.glob(os.path.join(REPLAYS, prop + '-*.json')):
            try:
                os.unlink(old)
            except OSError:
                pass
        self.known = vlib.load_known()
        self.failures = []          # symbolised failure records (dicts)
        self.known_hits = collections.OrderedDict()
        self.unknown = collections.OrderedDict()   # key -> first failure
        self.slow = 0
        self.timeouts_seen = 0

    def add(self, f):
        self.failures.append(f)
        kid = vlib.match_known(f, self.known)
        if kid:
            h = self.known_hits.setdefault(kid, {'count': 0, 'example': f})
            h['count'] += f.get('count', 1)
        else:
            k = '|'.join([f['prop'], f['kind'], f['src'], f['op'], f['sig']])
            u = self.unknown.setdefault(k, {'count': 0, 'first': f, 'preds': None})
            u['count'] += f.get('count', 1)
            ps = set(f.get('preds', '').split(','))
            u['preds'] = ps if u['preds'] is None else (u['preds'] & ps)

    def finish(self, replay_fn, max_report=40):
        """replay_fn(f) -> (ok, text): re-executes the witness twice; returns exit status"""
        for kid, h in self.known_hits.items():
            desc = next(k['what'] for k in self.known['findings'] if k['id'] == kid)
            log('KNOWN-FINDING: property=%s %s [%s; %d failing cells this run]' % (self.prop, desc, kid, h['count']))
        self.confirmed = 0
        if not self.unknown:
            return 0
        os.makedirs(REPLAYS, exist_ok=True)
        confirmed = unrepro = 0
        n = 0
        for k, u in self.unknown.items():
            f = u['first']
            n += 1
            if n > max_report:
                log('... %d further distinct violation signatures not listed' % (len(self.unknown) - max_report))
                break
            name = '%s-%s.json' % (self.prop, hashlib.sha1(k.encode()).hexdigest()[:10])
            path = os.path.join(REPLAYS, name)
            f2 = dict(f)
            f2['common_preds'] = sorted(u['preds'])
            f2['cells_failing'] = u['count']
            json.dump(f2, open(path, 'w'), indent=1)
            if f.get('sig', '') == 'timeout':
                # time-outs are only ever reported after the sub-cell has been re-run alone with a long limit; at most 8 of them
                # are re-run per check (each may take minutes), the others stay unverified sub-cells (counted under 'timeouts')
                self.timeouts_seen += 1
                if self.timeouts_seen > 8:
                    log('NOTE property=%s %s %s src=%s op=%s: exceeded the per-operation time limit in the sharded run; not re-run (more than 8 time-outs in this run), nothing is claimed for this sub-cell' % (
                        self.prop, f['kind'], f['params'], f['src'], f['op']))
                    self.slow += 1
                    continue
            ok, text = replay_fn(f) if replay_fn else (True, '')
            if ok and text:
                f2['replay_note'] = text
                json.dump(f2, open(path, 'w'), indent=1)
            if not ok:
                # A block build with more than one worker thread runs under the OS scheduler in BX: a failure that depends on
                # the completion order of the workers was really observed but need not recur in a replay.  It is reported as
                # schedule-dependent (the controlled-scheduler pass of C09/C12 decides the thread dimension exhaustively).
                thr = f.get('params', '0,0,0').split(',')
                if f.get('kind') == 'HASHRPDACBlocks' and len(thr) > 2 and thr[2].isdigit() and int(thr[2]) > 1 and 'timeout' not in f.get('sig', ''):
                    f2['replay_note'] = 'schedule-dependent under free-running worker threads: ' + text
                    json.dump(f2, open(path, 'w'), indent=1)
                    log('VIOLATION property=%s replay=%s' % (self.prop, path))
                    log('   %s %s src=%s op=%s sig=%s cells=%d :: %s [observed with %s worker threads under the OS scheduler; not every replay reproduces it]' % (
                        f['kind'], f['params'], f['src'], f['op'], f['sig'], u['count'], f.get('detail', '')[:160], thr[2]))
                    confirmed += 1
                    continue
                if f.get('sig', '') == 'timeout':
                    # no progress within the per-operation limit while 16 shards shared the machine; alone, with a 300 s limit, the same
                    # sub-cell finished: slow, not a hang
                    log('NOTE property=%s %s %s src=%s op=%s: exceeded the per-operation time limit in the sharded run, completed when re-run alone (not a violation)' % (
                        self.prop, f['kind'], f['params'], f['src'], f['op']))
                    self.slow += 1
                    continue
                log('UNREPRODUCED property=%s key=%s (%s) -- harness error, witness did not replay identically' % (self.prop, k, text))
                unrepro += 1
                continue
            confirmed += 1
            log('VIOLATION property=%s replay=%s' % (self.prop, path))
            log('   %s %s src=%s op=%s sig=%s cells=%d preds=%s :: %s' % (f['kind'], f['params'], f['src'], f['op'], f['sig'], u['count'], ','.join(sorted(u['preds'])), f.get('detail', '')[:160]))
        # exit 1 only together with at least one VIOLATION line; witnesses that could not be replayed alone are a harness error (2)
        self.confirmed = confirmed
        return 1 if confirmed else (2 if unrepro else 0)


# ------------------------------------------------------------------------------------------------ BX
class BX:
    # scopes: list of (scope string, exhaustive-space description); iterated smallest first
    ALLPAL = 'abc+ext+sgn+spr'
    SCOPES = {
        'quick': [
            'sigma=2,L=2,pal=abc+ext,stretch=1,pd=quick,nf=2',
            'sigma=2,L=2,pal=sgn,stretch=130,pd=min,nf=1,maxn=3',
            'sigma=3,L=2,pal=abc,stretch=1,pd=min,nf=1,maxn=3',
            'sigma=2,L=2,pal=abc,stretch=1,pd=min,nf=1,maxn=2,pre=126+127+128',
            'sigma=2,L=2,pal=abc,stretch=1,pd=minb,nf=1,maxn=2,pre=16382+16383+16384,kinds=PFC+RPFC+HTFC+HHTFC+RPHTFC',
            'sigma=2,L=4,pal=abc,stretch=1,pd=min,nf=1,maxn=3,kinds=RPDAC+HASHRPF+HASHRPDAC+RPFC',
            # ramps: every cardinality 1..62 along the lexicographic and the shortlex order of U(2,5) (size relations:
            # word/table/bucket boundaries, grammars with many rules, full decoding-table chunks)
            'sigma=2,L=5,pal=abc,stretch=1,pd=minb,nf=1,ramp=both',
            # replication: 40 copies (distinct 2-byte tags) of every set of <= 2 strings behind a shared prefix of 127..129 bytes:
            # the statistical coders only give 2-3 bit codewords (several strings per 16-bit decoding chunk) on inputs of this size
            'sigma=2,L=2,pal=abc,stretch=1,pd=minb,nf=1,rep=40,maxn=2,pre=125+126+127',
            # a named family: runs c^1..c^n_i whose letter weights grow by the golden ratio (3 400 strings, 700 KB): every rare byte gets a
            # codeword longer than the 16-bit decoding chunk (decoding subtrees, their save/load), for the kinds with a statistical coder
            'family=fibruns,depth=16,pd=min,nf=1,kinds=HTFC+HHTFC+HASHHF+HASHUFFDAC+RPHTFC',
            # text-length sweep: one dictionary per total text size 2..104 bytes (every residue modulo the word/block/sample sizes)
            'family=totals,depth=' + '+'.join(str(t) for t in range(2, 105)) + ',pd=quick,nf=1',
        ],
        'thorough': [
            # (each scope gets a fair share of the time left; the size-relation families come first, then the subset scopes)
            'family=fibruns,depth=12+13+14+15+16+17+18,pd=quick,nf=1,kinds=HTFC+HHTFC+HASHHF+HASHUFFDAC+RPHTFC',
            'family=totals,depth=' + '+'.join(str(t) for t in range(2, 521)) + ',pd=full,nf=1',
            'sigma=2,L=2,pal=abc+sgn,stretch=1,pd=minb,nf=1,rep=40,pre=0+125+126+127',
            'sigma=2,L=5,pal=abc+ext+sgn,stretch=1,pd=quick,nf=1,ramp=both',
            'sigma=3,L=3,pal=abc+ext,stretch=1,pd=quick,nf=1,ramp=both',
            'sigma=4,L=3,exact=1,pal=abc+spr,stretch=1,pd=quick,nf=1,ramp=lex',
            'sigma=3,L=2,pal=abc,stretch=1,pd=minb,nf=1,rep=30,maxn=3,pre=0+126',
            'sigma=2,L=2,pal=abc,stretch=1,pd=min,nf=1,maxn=2,pre=16382+16383+16384,kinds=PFC+RPFC+HTFC+HHTFC+RPHTFC+RPDAC+HASHHF+HASHRPF+HASHUFFDAC+HASHRPDAC+HASHRPDACBlocks+FMINDEX',
            'sigma=3,L=3,pal=abc,stretch=1,pd=min,nf=1,co=1',
            'sigma=2,L=5,pal=abc,stretch=1,pd=min,nf=1,co=1',
            'sigma=2,L=2,pal=abc+sgn,stretch=1,pd=quick,nf=1,maxn=3,pre=125+126+127+128+129',
            'sigma=2,L=2,pal=abc,stretch=1,pd=minb,nf=1,rep=99,maxn=3,pre=126',
            'sigma=2,L=5,pal=abc,stretch=130,pd=min,nf=1,ramp=shortlex',
            'sigma=2,L=2,pal=abc+ext+sgn+spr,stretch=1+130,pd=full,nf=4',
            'sigma=3,L=2,pal=abc,stretch=1,pd=quick,nf=2',
            'sigma=2,L=3,pal=abc,stretch=1,pd=quick,nf=2',
            'sigma=3,L=2,pal=ext+sgn+spr,stretch=1,pd=min,nf=2,maxn=4',
            'sigma=2,L=4,pal=abc,stretch=1,pd=quick,nf=1,co=2',
            'sigma=2,L=2,pal=abc,stretch=1100,pd=min,nf=1,maxn=3',
            'sigma=2,L=4,pal=abc,stretch=1,pd=min,nf=1,maxn=3',
        ],
    }
    DEADLINE = {'quick': 420, 'thorough': 3600}
    KINDS = {   # properties that only concern some kinds
        'C04': 'PFC+RPFC+HTFC+HHTFC+RPHTFC+RPDAC+FMINDEX+XBW',
        'C05': 'FMINDEX+XBW',
    }
    FLAVOUR = {'C07': ['asan', 'asan-grow']}
    ASSUME = ['small-scope hypothesis: inputs are all string sets of the listed scopes (alphabet <= 4 member bytes per cell, lengths <= 5 symbols x stretch; all subsets / subsets up to maxn / co-small complements / ramps, as each scope string says)',
              'reference model = sorted std::vector<std::string> (src/vx.hpp Model)',
              'gcc 12 AddressSanitizer in recover mode; non-strict memcmp/str* interceptors']

    def scopes(self, prop, tier):
        out = []
        for s in self.SCOPES[tier]:
            # the 4 525-set U(2,4) scope exercises the Re-Pair comparison routines (locate/extract/prefix oracles); the
            # observation-vector properties take it in the thorough tier only
            if tier == 'quick' and 'L=4,' in s and prop not in ('C01', 'C02', 'C03', 'C04'):
                continue
            if prop in self.KINDS:
                want = self.KINDS[prop].split('+')
                m = re.search(r',kinds=([A-Za-z+]+)', s)
                if m:
                    both = [k for k in m.group(1).split('+') if k in want]
                    if not both:
                        continue
                    s = s.replace(m.group(0), ',kinds=' + '+'.join(both))
                else:
                    s += ',kinds=' + self.KINDS[prop]
            out.append(s)
        # strings around 65 535 bytes: length fields narrower than 32 bits in an image or a header (metadata oracles only: cheap)
        LONG = 'sigma=2,L=2,pal=abc,stretch=1,pd=min,nf=1,maxn=%d,pre=65533+65534+65535+65536,kinds=PFC+RPFC+HTFC+HHTFC+RPHTFC+RPDAC+HASHHF+HASHRPF+HASHUFFDAC+HASHRPDAC+HASHRPDACBlocks+FMINDEX'
        if prop == 'C15':
            out.append(LONG % (1 if tier == 'quick' else 2))
        if prop == 'C06' and tier != 'quick':
            out.insert(3, LONG % 1)
        return out

    def replay_one(self, binary, f):
        cell = dict(kv.split('=') for kv in f.get('cell', '').split(',') if '=' in kv)
        strings = f['strings']
        if len(strings) > 60000:      # a single argv entry is limited to 128 KiB: large witnesses go through a file
            os.makedirs(SCRATCH, exist_ok=True)
            sf = os.path.join(SCRATCH, 'strings.%d.%s.hex' % (os.getpid(), hashlib.sha1(strings.encode()).hexdigest()[:10]))
            open(sf, 'w').write(strings)
            strings = '@' + sf
        cmd = [binary, '--one', '--prop', f['prop'], '--kind', f['kind'], '--params', f['params'], '--strings', strings, '--src', f['src'],
               '--sigma', cell.get('sigma', '2'), '--L', cell.get('L', '2'), '--stretch', cell.get('stretch', '1'), '--pal', cell.get('pal', 'abc'), '--nf', cell.get('nf', '2'), '--pre', cell.get('pre', '0'), '--rep', cell.get('rep', '1')]
        if cell.get('family'):
            cmd += ['--family', cell['family']]
        if 'timeout' in f.get('sig', ''):
            cmd += ['--subtimeout', '30']       # (x10 in --one mode = 300 s) a timed-out sub-cell is re-run alone with a long limit before it is called a hang
        keys = []
        for _ in range(2):
            p = subprocess.run(cmd, stdout=subprocess.PIPE, stderr=subprocess.PIPE, text=True)
            ks = set()
            for line in p.stdout.splitlines():
                if line.startswith('F '):
                    try:
                        j = json.loads(line[2:])
                    except Exception:
                        continue
                    ks.add('|'.join([j['op'], vlib.symbolise_sig(binary, j['sig'])]))
                elif line.startswith('X '):
                    j = json.loads(line[2:])
                    ks.add('|'.join([j['op'], vlib.symbolise_sig(binary, j['sig'])]))
                elif line.startswith('A ') and f['prop'] == 'C07':
                    sig, _, op = line[2:].partition('\t')
                    ks.add('|'.join([op, 'asan:' + vlib.symbolise_sig(binary, sig)]))
            keys.append(ks)
        want = '|'.join([f['op'], f['sig']])
        if all(want in ks for ks in keys):
            return True, ''
        # the replay runs exactly this sub-cell: a failure whose manifestation depends on heap layout (wild pointer, uninitialised
        # table) may surface under another operation/frame; accept when both replays fail and agree with each other
        if keys[0] and keys[0] == keys[1]:
            return True, 'manifestation on replay: %s' % sorted(keys[0])[:3]
        return False, 'wanted %s, replays gave %s' % (want, [sorted(k)[:6] for k in keys])

    def replay(self, prop, path):
        f = json.load(open(path))
        if f.get('engine') == 'SX':
            return ENGINES['C09'].replay(prop, path)
        flav = f.get('flavour', 'asan')
        b = vlib.build_tool(flav, 'bx')
        ok, text = self.replay_one(b, f)
        log(('REPRODUCED ' if ok else 'NOT-REPRODUCED ') + path + ' ' + text)
        return 1 if ok else 0

    def run(self, prop, tier, seed, deadline=None):
        t0 = time.time()
        deadline = deadline or float(os.environ.get('VERIF_DEADLINE', self.DEADLINE[tier] * (1.6 if (prop == 'C07' and tier == 'quick') else 1)))
        flavours = self.FLAVOUR.get(prop, ['asan'])
        res = Result(prop)
        cov = {'states': 0, 'transitions': 0, 'traces_validated_against_impl': 0, 'samples': [], 'exhaustive': True,
               'scopes_completed': [], 'scopes_incomplete': [], 'blocked_subcells': 0, 'blocked_why': {}, 'fatal_outcomes': 0, 'timeouts': 0,
               'asan_reports_seen': 0, 'units': 0, 'subcells': 0, 'notes': {}}
        binaries = {}
        for flav in flavours:
            binaries[flav] = vlib.build_tool(flav, 'bx')
        runs = []
        for si, scope in enumerate(self.scopes(prop, tier)):
            for flav in flavours:
                if tier == 'quick' and flav != flavours[0] and any(t in scope for t in ('pre=', 'stretch=130', 'rep=', 'L=4,', 'family=')):
                    continue      # quick tier: the small-MEMALLOC flavour on the two exhaustive subset scopes and the ramp only
                if flav == 'asan-grow':
                    # MEMALLOC only sizes the buffers of these kinds (the five hooked headers; HASHHF includes one of them)
                    grow = ['PFC', 'RPFC', 'HTFC', 'HHTFC', 'RPHTFC', 'HASHHF']
                    m = re.search(r',kinds=([A-Za-z+]+)', scope)
                    if m:
                        both = [k for k in m.group(1).split('+') if k in grow]
                        if not both:
                            continue
                        scope = scope.replace(m.group(0), ',kinds=' + '+'.join(both))
                    else:
                        scope = scope + ',kinds=' + '+'.join(grow)
                runs.append((scope, flav))
        for ri, (scope, flav) in enumerate(runs):
            if True:
                left = deadline - (time.time() - t0)
                if tier != 'quick':
                    # thorough tier: every scope gets a fair share of what is left (unused time rolls over), so that a large early
                    # scope cannot starve the later ones; a scope cut by its share is reported as incomplete with the units it covered
                    left = max(30.0, left * 1.25 / (len(runs) - ri)) if left > 5 and ri < len(runs) - 1 else left
                if left < 5:
                    cov['exhaustive'] = False
                    cov['scopes_incomplete'].append({'scope': scope, 'flavour': flav, 'reason': 'deadline reached before start'})
                    continue
                extra = ['--isolate', '1'] if prop == 'C07' else []
                m = self.run_scope(binaries[flav], prop, scope, left, extra)
                for f in m['failures']:
                    f['flavour'] = flav
                    res.add(f)
                cov['states'] += m['objects']
                cov['transitions'] += m['transitions']
                cov['traces_validated_against_impl'] += m['subcells']
                cov['units'] += m['units']
                cov['subcells'] += m['subcells']
                cov['blocked_subcells'] += m['blocked']
                cov['fatal_outcomes'] += m['fatals']
                cov['timeouts'] += m['timeouts']
                cov['asan_reports_seen'] += m['asan_reports']
                for k, v in m['blocked_why'].items():
                    cov['blocked_why'][k] = cov['blocked_why'].get(k, 0) + v
                for k, v in m['notes'].items():
                    cov['notes'][k] = cov['notes'].get(k, 0) + v
                if len(cov['samples']) < 8:
                    cov['samples'] += [dict(s, scope=scope) for s in m['samples'][:2]]
                entry = {'scope': scope, 'flavour': flav, 'input_sets': m['sets'], 'universe_strings': m['universe'], 'units': m['units'], 'units_total': m['units_total'],
                         'subcells': m['subcells'], 'objects': m['objects'], 'transitions': m['transitions'], 'wall_s': round(m['wall'], 1)}
                if m['complete']:
                    cov['scopes_completed'].append(entry)
                else:
                    cov['exhaustive'] = False
                    entry['reason'] = 'deadline reached inside scope'
                    cov['scopes_incomplete'].append(entry)
        b0 = binaries[flavours[0]]
        rc = res.finish(lambda f: self.replay_one(binaries.get(f.get('flavour', flavours[0]), b0), f))
        if prop == 'C12':
            # thread count is a tuning parameter too; BX runs the worker threads under the OS scheduler (one schedule per cell), so the
            # thread dimension is decided by the controlled scheduler: every interleaving (within the preemption bound) of the real block
            # constructor must give the image of the single-thread build -- equal images answer every query identically.
            nthr = self.thread_dimension(tier, max(10, deadline - (time.time() - t0)), cov)
            if nthr:
                rc = 1
                res.confirmed += nthr
        cov['known_findings_hit'] = {k: v['count'] for k, v in res.known_hits.items()}
        cov['distinct_failure_signatures'] = res.confirmed + len(res.known_hits)
        cov['rule'] = ('every non-empty subset S of U(sigma,L) (all strings of length <= L over sigma symbols; maxn/co restrict |S| as stated per scope) '
                       'x palettes x stretch factors x kinds x parameter domain pd x sources {fresh, generic loader, own loader (each load option), re-saved reload} '
                       'x the whole query universe; states = dictionary objects examined, transitions = API calls executed and compared with the reference model, '
                       'traces_validated = sub-cells (kind, parameters, source) run on the real code')
        if not cov['samples']:
            cov['samples'] = [{'note': 'no unit executed'}]
        vlib.write_evidence(prop, tier, seed, cov, time.time() - t0, res.confirmed, self.ASSUME)
        log('%s %s: %d units, %d sub-cells, %d objects, %d calls, %d blocked, exhaustive=%s, %.1fs, rc=%d' % (
            prop, tier, cov['units'], cov['subcells'], cov['states'], cov['transitions'], cov['blocked_subcells'], cov['exhaustive'], time.time() - t0, rc))
        return rc

    def thread_dimension(self, tier, left, cov):
        sx = ENGINES['C09']
        sb = vlib.build_tool('plain', 'sx')
        cfgs = [('B', 2, 2, 0, 1), ('B', 2, 2, 4, 1), ('B', 2, 3, 2, 1), ('B', 3, 2, 3, 0), ('B', 3, 3, 1, 0)] if tier == 'quick' else \
               [('B', w, t, v, 2) for v in range(9) for w in (2, 3) for t in (2, 3)]
        t0 = time.time()
        results = sx.run_configs(sb, cfgs, left, t0)
        cov['thread_dimension'] = []
        nviol = 0
        seen = set()
        for r in results:
            cfg = r['cfg']
            if r.get('skipped'):
                cov['exhaustive'] = False
                cov['thread_dimension'].append({'driver': 'B', 'workers': cfg[1], 'blocks': cfg[2], 'variant': cfg[3], 'skipped': 'deadline'})
                continue
            cov['thread_dimension'].append({'driver': 'B (real block constructor under the controlled scheduler)', 'workers': cfg[1], 'blocks': cfg[2], 'variant': cfg[3],
                                            'preemption_bound_completed': r['completed_bound'], 'schedules': r['executions'], 'states': r['states']})
            cov['states'] += r['states']; cov['transitions'] += r['transitions']; cov['traces_validated_against_impl'] += r['executions']
            if not r['complete']:
                cov['exhaustive'] = False
            for v in sorted(r['violations'], key=lambda x: (x['preemptions'], len(x['schedule']))):
                key = (cfg[0], v['outcome'], re.sub(r'T\d+|obj\d+', '', v['detail'])[:60])
                if key in seen:
                    continue
                seen.add(key)
                rr = sx.replay_sched(sb, cfg, v['schedule'])
                os.makedirs(REPLAYS, exist_ok=True)
                path = os.path.join(REPLAYS, 'C12-%s.json' % hashlib.sha1(repr((cfg, v['schedule'])).encode()).hexdigest()[:10])
                json.dump({'prop': 'C12', 'engine': 'SX', 'flavour': 'plain', 'cfg': list(cfg), 'schedule': v['schedule'], 'outcome': v['outcome'], 'outcome_name': OUTCOME.get(v['outcome']),
                           'detail': v['detail'], 'trace': v['trace'], 'preemptions': v['preemptions']}, open(path, 'w'), indent=1)
                if rr.get('outcome') != v['outcome'] or not rr.get('deterministic'):
                    log('UNREPRODUCED property=C12 cfg=%s schedule=%s: %s' % (cfg, v['schedule'], json.dumps(rr)[:300]))
                    continue
                log('VIOLATION property=C12 replay=%s' % path)
                log('   thread count: B workers=%d blocks=%d: %s %s [preemptions=%d]' % (cfg[1], cfg[2], OUTCOME.get(v['outcome']), v['detail'][:200], v['preemptions']))
                nviol += 1
        return nviol

    def run_scope(self, binary, prop, scope, left, extra):
        t = time.time()
        os.makedirs(SCRATCH, exist_ok=True)
        m = run_bx_scope(binary, prop, scope, left, SCRATCH, extra)
        m['wall'] = time.time() - t
        return m


def run_bx_scope(binary, prop, scope, deadline_s, outdir, extra):
    nshards = vlib.NPROC
    procs = []
    tag = hashlib.sha1((scope + binary).encode()).hexdigest()[:8] + '.%d' % os.getpid()
    for i in range(nshards):
        out = os.path.join(outdir, 'bx.%s.%s.%d.json' % (prop, tag, i))
        cmd = [binary, '--prop', prop, '--scope', scope, '--shard', '%d/%d' % (i, nshards), '--out', out,
               '--deadline', str(max(1, deadline_s))] + extra
        procs.append((subprocess.Popen(cmd, stdout=subprocess.DEVNULL, stderr=subprocess.PIPE), out))
    merged = {'scope': scope, 'complete': True, 'units_total': 0, 'units': 0, 'subcells': 0, 'objects': 0, 'transitions': 0,
              'blocked': 0, 'fatals': 0, 'timeouts': 0, 'asan_reports': 0, 'failures': [], 'samples': [], 'blocked_why': {},
              'notes': {}, 'asan_sigs': {}, 'sets': 0, 'universe': 0}
    for p, out in procs:
        _, err = p.communicate()
        if p.returncode != 0 or not os.path.exists(out):
            sys.stderr.write('bx shard failed rc=%s: %s\n' % (p.returncode, err.decode(errors='replace')[-2000:]))
            raise SystemExit(2)
        d = json.load(open(out))
        os.unlink(out)
        merged['complete'] = merged['complete'] and d['complete']
        merged['units_total'] = d['units_total']
        merged['sets'] = d['sets']
        merged['universe'] = d['universe']
        for k in ('units', 'subcells', 'objects', 'transitions', 'blocked', 'fatals', 'timeouts', 'asan_reports'):
            merged[k] += d[k]
        for k in ('blocked_why', 'notes', 'asan_sigs'):
            for a, b in d[k].items():
                merged[k][a] = merged[k].get(a, 0) + b
        merged['failures'] += d['failures']
        if len(merged['samples']) < 6:
            merged['samples'] += d['samples'][:2]
    for f in merged['failures']:
        f['sig'] = vlib.symbolise_sig(binary, f['sig'])
    for k in ('blocked_why', 'asan_sigs'):
        merged[k] = {vlib.symbolise_sig(binary, a): b for a, b in merged[k].items()}
    return merged


ENGINES = {}
_bx = BX()
for _p in ['C01', 'C02', 'C03', 'C04', 'C05', 'C06', 'C07', 'C08', 'C12', 'C13', 'C15', 'C16']:
    ENGINES[_p] = _bx


# ------------------------------------------------------------------------------------------------ SX
OUTCOME = {1: 'ok', 2: 'deadlock', 3: 'replay-diverged', 4: 'too-long/non-terminating', 5: 'oracle', 6: 'data-race'}


class SX:
    """controlled-scheduler exploration of the real WorkerPool / block constructor (C09, C10, C11)"""
    ASSUME = ['interleavings are explored at pthread synchronisation operations (lock, condition wait/notify, create, join, exit); code between them is '
              'treated as atomic, which is sound for data-race-free code -- C11 checks race freedom of the same drivers under TSan on every explored schedule',
              'condition waits have no spurious wake-ups (they could only hide a lost wake-up)',
              'preemption-bounded: all schedules with at most the stated number of preemptions, each bound run to completion',
              'configurations marked "all interleavings" have no preemption bound: the search is closed by matching happens-before states (per-thread causal '
              'history hashes + scheduler state); equal states have equal futures for data-race-free code (C11 checks that), 64-bit hash collisions ignored',
              'workers <= 3, tasks/blocks <= 3']

    def configs(self, prop, tier):
        c = []
        if prop == 'C10':
            if tier == 'quick':
                for d in ['D1', 'D2', 'D3', 'D5']:
                    for w in (1, 2):
                        for t in (0, 1, 2):
                            c.append((d, w, t, 0, 2 if (w, t) != (2, 2) or d in ('D1', 'D3') else 1))
                for w in (1, 2, 3):
                    c.append(('D4', w, 0, 0, 2))
                c.append(('D1', 3, 2, 0, 1)); c.append(('D3', 3, 3, 0, 1)); c.append(('D2', 2, 2, 0, 2))
                # bound -1 = no preemption bound: ALL interleavings, closed by happens-before state matching (DESIGN 12.1)
                for d in ['D1', 'D2', 'D3', 'D5']:
                    for t in (0, 1, 2):
                        c.append((d, 1, t, 0, -1))
                c.append(('D1', 1, 3, 0, -1)); c.append(('D3', 1, 3, 0, -1)); c.append(('D4', 1, 0, 0, -1)); c.append(('D4', 2, 0, 0, -1))
            else:
                for d in ['D1', 'D2', 'D3', 'D5']:
                    for w in (1, 2, 3):
                        for t in (0, 1, 2, 3):
                            c.append((d, w, t, 0, 3))
                for w in (1, 2, 3):
                    c.append(('D4', w, 0, 0, 4))
                for d in ['D1', 'D2', 'D3', 'D5']:
                    for t in (0, 1, 2, 3):
                        c.append((d, 1, t, 0, -1))
                c.append(('D4', 1, 0, 0, -1)); c.append(('D4', 2, 0, 0, -1)); c.append(('D4', 3, 0, 0, -1))
                for d in ['D1', 'D3', 'D2', 'D5']:
                    c.append((d, 2, 0, 0, -1)); c.append((d, 2, 1, 0, -1))
        elif prop == 'C09':
            if tier == 'quick':
                c = [('B', 1, 2, 0, 2), ('B', 2, 2, 0, 1), ('B', 2, 2, 4, 1), ('B', 2, 3, 2, 1), ('B', 3, 2, 3, 0), ('B', 3, 3, 1, 0), ('B', 2, 1, 0, 2),
                     ('B', 1, 2, 0, -1)]    # all interleavings of producer + one worker, two blocks (closed by happens-before state matching)
            else:
                for v in range(9):
                    for w in (1, 2, 3):
                        for t in (1, 2, 3):
                            c.append(('B', w, t, v, 3))
                for v in (0, 3, 7):
                    c.append(('B', 1, 2, v, -1))
                c.append(('B', 1, 3, 1, -1)); c.append(('B', 2, 2, 0, -1))
        elif prop == 'C11':
            if tier == 'quick':
                c = [('D1', 2, 2, 0, 1), ('D2', 2, 2, 0, 1), ('D3', 2, 2, 0, 1), ('D5', 2, 2, 0, 1), ('D4', 2, 0, 0, 1), ('B', 2, 2, 0, 1), ('B', 2, 2, 3, 1), ('B', 2, 2, 7, 1),
                     ('B', 2, 3, 1, 0), ('B', 2, 3, 4, 0), ('B', 3, 3, 5, 0), ('D1', 3, 2, 0, 0),
                     ('D1', 1, 2, 0, -1), ('D2', 1, 1, 0, -1), ('D5', 1, 2, 0, -1), ('D3', 1, 2, 0, -1)]   # all interleavings (producer vs one worker) under TSan
            else:
                for d in ['D1', 'D2', 'D3', 'D5']:
                    for w in (2, 3):
                        for t in (1, 2, 3):
                            c.append((d, w, t, 0, 2))
                c.append(('D4', 3, 0, 0, 2))
                for v in range(9):
                    for w in (2, 3):
                        for t in (2, 3):
                            c.append(('B', w, t, v, 2))
        # smallest first
        c.sort(key=lambda x: (x[1] * 3 + x[2] * 4 + (x[4] if x[4] >= 0 else (3 if x[1] == 1 else 40)) * 6, x[0]))
        return c

    DEADLINE = {'quick': 300, 'thorough': 2700}

    def run_configs(self, binary, cfgs, deadline, t0):
        """run configurations on NPROC cores, smallest first; returns list of result dicts"""
        os.makedirs(SCRATCH, exist_ok=True)
        pending = list(cfgs)
        running = []
        results = []
        idx = 0
        while pending or running:
            while pending and len(running) < vlib.NPROC:
                left = deadline - (time.time() - t0)
                cfg = pending.pop(0)
                if left < 3:
                    results.append({'cfg': cfg, 'skipped': True})
                    continue
                d, w, t, v, b = cfg
                out = os.path.join(SCRATCH, 'sx.%d.%d.json' % (os.getpid(), idx)); idx += 1
                cmd = [binary, '--driver', d, '--workers', str(w), '--tasks', str(t), '--variant', str(v)] + (['--bound', str(b)] if b >= 0 else ['--hb']) + ['--deadline', str(left), '--out', out]
                running.append((subprocess.Popen(cmd, stdout=subprocess.DEVNULL, stderr=subprocess.PIPE), out, cfg))
            still = []
            for p, out, cfg in running:
                if p.poll() is None:
                    still.append((p, out, cfg))
                    continue
                if p.returncode != 0 or not os.path.exists(out):
                    sys.stderr.write('sx failed rc=%s cfg=%s: %s\n' % (p.returncode, cfg, p.stderr.read().decode(errors='replace')[-1500:]))
                    raise SystemExit(2)
                r = json.load(open(out)); os.unlink(out)
                r['cfg'] = cfg
                results.append(r)
            running = still
            time.sleep(0.05)
        return results

    def replay_sched(self, binary, cfg, sched):
        d, w, t, v, b = cfg
        p = subprocess.run([binary, '--driver', d, '--workers', str(w), '--tasks', str(t), '--variant', str(v), '--replay', sched], stdout=subprocess.PIPE, stderr=subprocess.PIPE, text=True)
        try:
            return json.loads(p.stdout.strip().splitlines()[-1])
        except Exception:
            return {'outcome': -1, 'deterministic': False, 'detail': 'replay failed: ' + p.stderr[-300:]}

    def replay(self, prop, path):
        f = json.load(open(path))
        if 'cfg' not in f:
            return BX().replay(prop, path)
        b = vlib.build_tool(f.get('flavour', 'plain'), 'sx')
        r = self.replay_sched(b, tuple(f['cfg']), f['schedule'])
        ok = r.get('outcome') == f['outcome'] and r.get('deterministic')
        log(('REPRODUCED ' if ok else 'NOT-REPRODUCED ') + path + ' ' + json.dumps(r)[:600])
        return 1 if ok else 0

    def run(self, prop, tier, seed, deadline=None):
        t0 = time.time()
        deadline = deadline or float(os.environ.get('VERIF_DEADLINE', self.DEADLINE[tier]))
        flav = 'tsan' if prop == 'C11' else 'plain'
        binary = vlib.build_tool(flav, 'sx')
        cov = {'states': 0, 'transitions': 0, 'traces_validated_against_impl': 0, 'samples': [], 'exhaustive': True, 'schedules': 0,
               'configurations': [], 'distinct_outcomes': {}, 'flavour': flav}
        violations = []
        bx_part = None
        if prop == 'C09':
            # data dimension: every input set x every cut x thread counts under the OS schedule (BX oracle C09)
            bxe = BX()
            bxb = vlib.build_tool('asan', 'bx')
            # (the ramp gives blocks of every size, hence DAC/bitmap lengths on word boundaries; the sgn palette gives 8-bit symbols)
            scopes = ['sigma=2,L=2,pal=abc+sgn,stretch=1,pd=full,nf=1,kinds=HASHRPDACBlocks', 'sigma=2,L=5,pal=abc,stretch=1,pd=quick,nf=1,ramp=both,kinds=HASHRPDACBlocks'] if tier == 'quick' else \
                     ['sigma=2,L=2,pal=abc+sgn+ext,stretch=1+130,pd=full,nf=1,kinds=HASHRPDACBlocks', 'sigma=2,L=5,pal=abc+sgn,stretch=1,pd=full,nf=1,ramp=both,kinds=HASHRPDACBlocks',
                      'sigma=3,L=2,pal=abc,stretch=1,pd=full,nf=1,kinds=HASHRPDACBlocks,maxn=5']
            bx_part = {'scopes': [], 'failures': []}
            for sc in scopes:
                left = deadline * 0.4 - (time.time() - t0)
                if left < 5:
                    cov['exhaustive'] = False
                    continue
                m = bxe.run_scope(bxb, 'C09', sc, left, [])
                bx_part['scopes'].append({'scope': sc, 'units': m['units'], 'subcells': m['subcells'], 'objects': m['objects'], 'transitions': m['transitions'], 'complete': m['complete']})
                bx_part['failures'] += m['failures']
                cov['states'] += m['objects']; cov['transitions'] += m['transitions']; cov['traces_validated_against_impl'] += m['subcells']
                if not m['complete']:
                    cov['exhaustive'] = False
                cov['samples'] += m['samples'][:1]
        cfgs = self.configs(prop, tier)
        if tier != 'quick':
            # every configuration is first run with the default schedule and all schedules without preemption (cheap), so that a
            # deep early configuration cannot keep a later one from being exercised at all before the deadline
            cfgs = sorted(set((d, w, t, v, 0) for (d, w, t, v, b) in cfgs if b > 0)) + cfgs
            cfgs = [x for x in cfgs if x[4] < 0 and x[1] == 1] + [x for x in cfgs if not (x[4] < 0 and x[1] == 1)]   # the closed single-worker searches first
        if prop == 'C10':
            # validation of the state matching itself: for configurations small enough to enumerate EVERY schedule statelessly (preemption
            # bound above the maximum possible), the set of happens-before states visited must equal the set the state-matching search visits
            cov['state_matching_cross_check'] = []
            for (d, w, t) in ([('D1', 1, 0), ('D1', 1, 1), ('D4', 1, 0)] if tier == 'quick' else [('D1', 1, 0), ('D1', 1, 1), ('D3', 1, 1), ('D2', 1, 0), ('D4', 1, 0), ('D2', 1, 1)]):
                if deadline - (time.time() - t0) < 60:
                    break
                fa = os.path.join(SCRATCH, 'hbA.%d' % os.getpid()); fb = os.path.join(SCRATCH, 'hbB.%d' % os.getpid())
                base = [binary, '--driver', d, '--workers', str(w), '--tasks', str(t), '--deadline', '120']
                ra = json.loads(subprocess.run(base + ['--bound', '99', '--dump-hb', fa], stdout=subprocess.PIPE, text=True).stdout)
                rb = json.loads(subprocess.run(base + ['--hb', '--dump-hb', fb], stdout=subprocess.PIPE, text=True).stdout)
                same = open(fa).read() == open(fb).read()
                os.unlink(fa); os.unlink(fb)
                cov['state_matching_cross_check'].append({'driver': d, 'workers': w, 'tasks': t, 'all_schedules_stateless': ra['executions'], 'max_preemptions_in_any_schedule': max([i for i, n in enumerate(ra['per_bound']) if n] or [0]),
                                                          'stateless_complete': ra['complete'], 'executions_with_state_matching': rb['executions'], 'happens_before_states': rb['hb_states'], 'same_state_set': same})
                if ra['complete'] and rb['complete'] and not same:
                    log('HARNESS ERROR: state-matching search and full stateless enumeration of %s W=%d T=%d visit different happens-before state sets' % (d, w, t))
                    raise SystemExit(2)
        results = self.run_configs(binary, cfgs, deadline, t0)
        if prop == 'C09':
            # SX treats the code between two synchronisation operations as atomic, which is only sound if the block builder is
            # free of data races: the same driver is therefore also explored under TSan (vector-clock check on every schedule).
            # An unordered conflicting access on the shared block table means real interleavings exist (inside push_back / the
            # slot store) that SX cannot enumerate and in which a block is lost or the image differs: reported as a C09 violation.
            tb = vlib.build_tool('tsan', 'sx')
            tcfg = [('B', 2, 2, 0, 1), ('B', 2, 2, 3, 1), ('B', 2, 3, 4, 0), ('B', 2, 3, 7, 0)] if tier == 'quick' else [('B', w, t, v, 1) for v in range(9) for w in (2, 3) for t in (2, 3)]
            tres = self.run_configs(tb, tcfg, deadline, t0)
            cov['race_precondition'] = []
            for r in tres:
                cfg = r['cfg']
                if r.get('skipped'):
                    cov['exhaustive'] = False
                    continue
                cov['race_precondition'].append({'driver': 'B (TSan)', 'workers': cfg[1], 'blocks': cfg[2], 'variant': cfg[3], 'preemption_bound_completed': r['completed_bound'], 'schedules': r['executions']})
                cov['schedules'] += r['executions']; cov['states'] += r['states']; cov['transitions'] += r['transitions']; cov['traces_validated_against_impl'] += r['executions']
                for v in r['violations']:
                    v = dict(v); v['tsan'] = True
                    violations.append((cfg, v))
        for r in results:
            cfg = r['cfg']
            if r.get('skipped'):
                cov['exhaustive'] = False
                cov['configurations'].append({'driver': cfg[0], 'workers': cfg[1], 'tasks_or_blocks': cfg[2], 'variant': cfg[3], 'bound_requested': cfg[4], 'skipped': 'deadline'})
                continue
            cov['states'] += r['states']; cov['transitions'] += r['transitions']; cov['schedules'] += r['executions']
            cov['traces_validated_against_impl'] += r['executions']
            if not r['complete']:
                cov['exhaustive'] = False
            for k, v in r['outcomes'].items():
                name = OUTCOME.get(int(k), k)
                cov['distinct_outcomes'][name] = cov['distinct_outcomes'].get(name, 0) + v
            if r.get('hb'):
                cov['configurations'].append({'driver': cfg[0], 'workers': cfg[1], 'tasks_or_blocks': cfg[2], 'variant': cfg[3], 'bound_requested': 'none (all interleavings)',
                                              'mode': 'stateful: happens-before state matching, no preemption bound', 'closed': r['complete'], 'hb_states': r['hb_states'],
                                              'alternatives_cut_by_state_matching': r['hb_pruned'], 'schedules': r['executions'], 'max_choice_points': r['max_choice_points'], 'wall_s': r['wall_s']})
                cov['unbounded_closed'] = cov.get('unbounded_closed', 0) + (1 if r['complete'] else 0)
                cov['states'] += r['hb_states'] - r['states']    # count the happens-before states for these configurations
            else:
                cov['configurations'].append({'driver': cfg[0], 'workers': cfg[1], 'tasks_or_blocks': cfg[2], 'variant': cfg[3], 'bound_requested': cfg[4],
                                              'preemption_bound_completed': r['completed_bound'], 'schedules': r['executions'], 'per_bound': r['per_bound'],
                                              'states': r['states'], 'max_choice_points': r['max_choice_points'], 'wall_s': r['wall_s']})
            if len(cov['samples']) < 6:
                cov['samples'] += [dict(s, driver=cfg[0], workers=cfg[1], tasks=cfg[2]) for s in r['samples'][:1]]
            for v in r['violations']:
                violations.append((cfg, v))
        rc = 0
        os.makedirs(REPLAYS, exist_ok=True)
        seen = set()
        for cfg, v in sorted(violations, key=lambda x: (x[1]['preemptions'], len(x[1]['schedule']))):
            race = v.get('race', '')
            vbin = vlib.build_tool('tsan', 'sx') if (v.get('tsan') or prop == 'C11') else binary
            if race:
                race = vlib.symbolise_sig(vbin, race)
            key = (cfg[0], v['outcome'], re.sub(r'T\d+|obj\d+', '', v['detail'])[:60], re.sub(r'by T\d+', '', race)[:200])
            if key in seen:
                continue
            seen.add(key)
            rr = self.replay_sched(vbin, cfg, v['schedule'])
            name = '%s-%s.json' % (prop, hashlib.sha1(repr((cfg, v['schedule'])).encode()).hexdigest()[:10])
            path = os.path.join(REPLAYS, name)
            json.dump({'prop': prop, 'engine': 'SX', 'flavour': 'tsan' if vbin != binary or prop == 'C11' else flav, 'cfg': list(cfg), 'schedule': v['schedule'], 'outcome': v['outcome'], 'outcome_name': OUTCOME.get(v['outcome']),
                       'detail': v['detail'], 'race': race, 'trace': v['trace'], 'preemptions': v['preemptions']}, open(path, 'w'), indent=1)
            if rr.get('outcome') != v['outcome'] or not rr.get('deterministic'):
                log('UNREPRODUCED property=%s cfg=%s schedule=%s: %s' % (prop, cfg, v['schedule'], json.dumps(rr)[:300]))
                rc = rc or 2
                continue
            log('VIOLATION property=%s replay=%s' % (prop, path))
            log('   %s workers=%d tasks=%d: %s %s %s [preemptions=%d]' % (cfg[0], cfg[1], cfg[2], OUTCOME.get(v['outcome']), v['detail'][:200], race[:300], v['preemptions']))
            rc = 1
        nviol = len(seen)
        if bx_part is not None:
            res = Result(prop)
            for f in bx_part['failures']:
                f['flavour'] = 'asan'
                res.add(f)
            bxe = BX()
            rc2 = res.finish(lambda f: bxe.replay_one(vlib.build_tool('asan', 'bx'), f))
            rc = rc or rc2
            nviol += res.confirmed
            cov['data_dimension'] = bx_part['scopes']
        cov['rule'] = ('every thread interleaving at pthread synchronisation points of the real code (unmodified parallel/Worker.hpp and block constructor, pthread_* interposed), '
                       'iterative preemption bounding, and for the smallest configurations all interleavings with happens-before state matching; each execution in a forked child; '
                       'states = distinct abstract scheduler states (happens-before states in the unbounded mode) at choice points, transitions = choice points executed, '
                       'traces_validated = complete executions of the implementation')
        if not cov['samples']:
            cov['samples'] = [{'note': 'nothing executed'}]
        vlib.write_evidence(prop, tier, seed, cov, time.time() - t0, nviol, self.ASSUME)
        log('%s %s: %d configurations, %d schedules, %d states, outcomes=%s, exhaustive(within bounds)=%s, %.1fs, rc=%d' % (
            prop, tier, len(cov['configurations']), cov['schedules'], cov['states'], cov['distinct_outcomes'], cov['exhaustive'], time.time() - t0, rc))
        return rc


_sx = SX()
for _p in ['C09', 'C10', 'C11']:
    ENGINES[_p] = _sx


# ------------------------------------------------------------------------------------------------ KX
class KX:
    PARTS = {'C17': ['vbyte', 'logseq', 'dacvls'], 'C18': ['codes', 'decode'], 'C19': ['bits', 'wt'], 'C20': ['repair']}
    DEADLINE = {'quick': 240, 'thorough': 2700}
    ASSUME = ['inputs: exhaustive up to the stated bounds, or all vectors within the stated Hamming distance of the base patterns',
              'oracles: textbook definitions on plain arrays (src/kx.cpp)', 'gcc 12 AddressSanitizer in recover mode']
    # extra dictionary-level parts (run through BX) that belong to the component properties
    BX_EXTRA = {
        'C18': ('C01', {'quick': ['sigma=3,L=2,pal=abc+spr,stretch=1,pd=min,nf=1,maxn=4,kinds=HTFC+HHTFC+HASHHF+HASHUFFDAC'],
                        'thorough': ['sigma=3,L=2,pal=abc+spr+sgn,stretch=1,pd=quick,nf=1,kinds=HTFC+HHTFC+HASHHF+HASHUFFDAC',
                                     'sigma=2,L=3,pal=abc,stretch=1,pd=quick,nf=1,kinds=HTFC+HHTFC+HASHHF+HASHUFFDAC']}),
        'C20': ('C01', {'quick': ['sigma=3,L=2,pal=abc,stretch=1,pd=min,nf=1,maxn=4,kinds=RPDAC+RPFC+HASHRPF+HASHRPDAC+RPHTFC'],
                        'thorough': ['sigma=3,L=2,pal=abc,stretch=1,pd=quick,nf=1,kinds=RPDAC+RPFC+HASHRPF+HASHRPDAC+RPHTFC',
                                     'sigma=2,L=4,pal=abc,stretch=1,pd=min,nf=1,co=1,kinds=RPDAC+RPFC+HASHRPF+HASHRPDAC+RPHTFC']}),
        'C17': ('C01', {'quick': ['sigma=3,L=2,pal=abc,stretch=1,pd=min,nf=1,maxn=4,kinds=HASHUFFDAC+RPDAC+HASHRPDAC'],
                        'thorough': ['sigma=3,L=2,pal=abc,stretch=1+130,pd=quick,nf=1,kinds=HASHUFFDAC+RPDAC+HASHRPDAC']}),
    }

    def run_part(self, binary, prop, part, tier, only=None, nshards=None):
        nshards = nshards or vlib.NPROC
        os.makedirs(SCRATCH, exist_ok=True)
        procs = []
        for i in range(nshards):
            out = os.path.join(SCRATCH, 'kx.%s.%s.%d.%d.json' % (prop, part, os.getpid(), i))
            cmd = [binary, '--prop', prop, '--part', part, '--tier', tier, '--shard', '%d/%d' % (i, nshards), '--out', out]
            if only is not None:
                cmd += ['--only', only]
            procs.append((subprocess.Popen(cmd, stdout=subprocess.DEVNULL, stderr=subprocess.PIPE), out))
        tot = {'cases': 0, 'checks': 0, 'blocked_units': 0, 'failures': [], 'samples': []}
        for p, out in procs:
            _, err = p.communicate()
            if p.returncode != 0 or not os.path.exists(out):
                sys.stderr.write('kx shard failed rc=%s: %s\n' % (p.returncode, err.decode(errors='replace')[-1500:]))
                raise SystemExit(2)
            d = json.load(open(out)); os.unlink(out)
            for k in ('cases', 'checks', 'blocked_units'):
                tot[k] += d[k]
            tot['failures'] += d['failures']
            for smp in d['samples']:
                if smp not in tot['samples'] and len(tot['samples']) < 6:
                    tot['samples'].append(smp)
        for f in tot['failures']:
            f['sig'] = vlib.symbolise_sig(binary, f['sig'])
        return tot

    def to_failure(self, prop, part, f):
        return {'prop': prop, 'kind': f['comp'], 'params': part, 'src': 'component', 'op': f['op'], 'sig': f['sig'], 'preds': 'always',
                'strings': '', 'arg': '', 'detail': f['detail'], 'count': f['count'], 'input': f['input'], 'engine': 'KX', 'part': part}

    def replay_one(self, binary, f, tier):
        keys = []
        for _ in range(2):
            t = self.run_part(binary, f['prop'], f['part'], tier, only=f['input'], nshards=1)
            keys.append(set('|'.join([x['comp'], x['op'], x['sig']]) for x in t['failures']))
        want = '|'.join([f['kind'], f['op'], f['sig']])
        if all(want in k for k in keys):
            return True, ''
        comp = f['kind'] + '|'
        if all(any(x.startswith(comp) for x in k) for k in keys):
            return True, 'manifestation on replay: %s' % sorted(x for x in keys[0] if x.startswith(comp))[:3]
        return False, 'wanted %s got %s' % (want, [sorted(k)[:5] for k in keys])

    def replay(self, prop, path):
        f = json.load(open(path))
        if f.get('engine') != 'KX':
            return BX().replay(prop, path)
        b = vlib.build_tool('asan', 'kx')
        ok, text = self.replay_one(b, f, f.get('tier', 'thorough'))
        log(('REPRODUCED ' if ok else 'NOT-REPRODUCED ') + path + ' ' + text)
        return 1 if ok else 0

    def run(self, prop, tier, seed, deadline=None):
        t0 = time.time()
        deadline = deadline or float(os.environ.get('VERIF_DEADLINE', self.DEADLINE[tier]))
        binary = vlib.build_tool('asan', 'kx')
        res = Result(prop)
        cov = {'states': 0, 'transitions': 0, 'traces_validated_against_impl': 0, 'samples': [], 'exhaustive': True, 'parts': [], 'blocked_units': 0}
        for part in self.PARTS[prop]:
            t = self.run_part(binary, prop, part, tier)
            cov['states'] += t['cases']; cov['transitions'] += t['checks']; cov['traces_validated_against_impl'] += t['cases']
            cov['blocked_units'] += t['blocked_units']
            cov['parts'].append({'part': part, 'cases': t['cases'], 'checks': t['checks'], 'blocked_units': t['blocked_units']})
            cov['samples'] += t['samples'][:3]
            for f in t['failures']:
                ff = self.to_failure(prop, part, f); ff['tier'] = tier
                res.add(ff)
        # dictionary-level confirmation through BX (encode/decode pairs at every alignment the layouts produce, etc.)
        bx_fail = []
        if prop in self.BX_EXTRA:
            oracle, scopes = self.BX_EXTRA[prop]
            bxe = BX(); bxb = vlib.build_tool('asan', 'bx')
            for sc in scopes[tier]:
                left = deadline - (time.time() - t0)
                if left < 5:
                    cov['exhaustive'] = False
                    continue
                m = bxe.run_scope(bxb, oracle, sc, left, [])
                cov['states'] += m['objects']; cov['transitions'] += m['transitions']; cov['traces_validated_against_impl'] += m['subcells']
                cov['parts'].append({'part': 'dictionary-level (BX oracle %s)' % oracle, 'scope': sc, 'units': m['units'], 'subcells': m['subcells'], 'objects': m['objects'],
                                     'calls': m['transitions'], 'blocked': m['blocked'], 'complete': m['complete']})
                if not m['complete']:
                    cov['exhaustive'] = False
                for f in m['failures']:
                    f['prop'] = prop          # reported under the component property
                    f['flavour'] = 'asan'; f['via'] = oracle
                    res.add(f)
        bxe = BX()

        def rp(f):
            if f.get('engine') == 'KX':
                return self.replay_one(binary, f, tier)
            g = dict(f); g['prop'] = f.get('via', 'C01')
            ok, text = bxe.replay_one(vlib.build_tool('asan', 'bx'), g)
            return ok, text
        rc = res.finish(rp)
        cov['known_findings_hit'] = {k: v['count'] for k, v in res.known_hits.items()}
        cov['rule'] = 'states = component instances built (cases); transitions = individual answers compared with the plain-array definition; every case runs on the real component code'
        if not cov['samples']:
            cov['samples'] = [{'note': 'nothing executed'}]
        vlib.write_evidence(prop, tier, seed, cov, time.time() - t0, res.confirmed, self.ASSUME)
        log('%s %s: %d cases, %d checks, %d blocked units, exhaustive=%s, %.1fs, rc=%d' % (prop, tier, cov['states'], cov['transitions'], cov['blocked_units'], cov['exhaustive'], time.time() - t0, rc))
        return rc


_kx = KX()
for _p in ['C17', 'C18', 'C19', 'C20']:
    ENGINES[_p] = _kx


# ------------------------------------------------------------------------------------------------ HX
class HX:
    SCOPES = {'quick': ['sigma=2,L=2,pal=abc,stretch=1,pd=min,nf=2', 'sigma=2,L=2,pal=sgn,stretch=130,pd=min,nf=1,maxn=2', 'sigma=3,L=2,pal=ext,stretch=1,pd=min,nf=1,maxn=2'],
              'thorough': ['sigma=2,L=2,pal=abc+ext+sgn+spr,stretch=1,pd=quick,nf=2', 'sigma=3,L=2,pal=abc,stretch=1,pd=min,nf=2,maxn=4',
                           'sigma=2,L=3,pal=abc,stretch=1,pd=min,nf=2,maxn=4', 'sigma=2,L=2,pal=sgn,stretch=130,pd=min,nf=1', 'sigma=2,L=4,pal=abc,stretch=1,pd=min,nf=1,co=1']}
    DEADLINE = {'quick': 240, 'thorough': 2700}
    ASSUME = ['state = heap image (address, size, bytes of the blocks allocated while the object was built/loaded, freed set); file-scope mutable state of the library is not part of it '
              '(the library has none on query paths: nm scan of .data/.bss shows only build-time globals of the suffix sorter and lazily built constant tables)',
              'every exploration step replays the history on a fresh object in a child forked from the same parent, so addresses are reproducible; a diverging replay is a hard error',
              'closure argument: if every operation of the alphabet is a self-loop on the image, answers are history-independent for histories of any length over that alphabet',
              'small-scope hypothesis for the dictionaries explored (scopes listed in coverage)']

    def replay_one(self, binary, f):
        cell = dict(kv.split('=') for kv in f.get('cell', '').split(',') if '=' in kv)
        cmd = [binary, '--one', '--kind', f['kind'], '--params', f['params'], '--strings', f['strings'], '--src', f['src'],
               '--sigma', cell.get('sigma', '2'), '--L', cell.get('L', '2'), '--stretch', cell.get('stretch', '1'), '--pal', cell.get('pal', 'abc')]
        keys = []
        for _ in range(2):
            p = subprocess.run(cmd, stdout=subprocess.PIPE, stderr=subprocess.PIPE, text=True)
            ks = set()
            for line in p.stdout.splitlines():
                if line.startswith('F '):
                    try:
                        j = json.loads(line[2:])
                    except Exception:
                        continue
                    ks.add('|'.join([j['op'], vlib.symbolise_sig(binary, j['sig'])]))
            keys.append(ks)
        want = '|'.join([f['op'], f['sig']])
        if all(want in k for k in keys):
            return True, ''
        if keys[0] and keys[0] == keys[1]:
            return True, 'manifestation on replay: %s' % sorted(keys[0])[:3]
        return False, 'wanted %s got %s' % (want, [sorted(k)[:4] for k in keys])

    def replay(self, prop, path):
        f = json.load(open(path))
        b = vlib.build_tool('asan', 'hx')
        ok, text = self.replay_one(b, f)
        log(('REPRODUCED ' if ok else 'NOT-REPRODUCED ') + path + ' ' + text)
        return 1 if ok else 0

    def run(self, prop, tier, seed, deadline=None):
        t0 = time.time()
        deadline = deadline or float(os.environ.get('VERIF_DEADLINE', self.DEADLINE[tier]))
        binary = vlib.build_tool('asan', 'hx')
        res = Result(prop)
        cov = {'states': 0, 'transitions': 0, 'traces_validated_against_impl': 0, 'samples': [], 'exhaustive': True, 'objects_explored': 0, 'self_loops': 0,
               'image_changing_transitions': 0, 'api_calls': 0, 'blocked_objects': 0, 'searches_capped': 0, 'scopes_completed': [], 'scopes_incomplete': [], 'notes': {}, 'alphabet_size_max': 0}
        os.makedirs(SCRATCH, exist_ok=True)
        for scope in self.SCOPES[tier]:
            left = deadline - (time.time() - t0)
            if left < 5:
                cov['exhaustive'] = False
                cov['scopes_incomplete'].append({'scope': scope, 'reason': 'deadline reached before start'})
                continue
            procs = []
            for i in range(vlib.NPROC):
                out = os.path.join(SCRATCH, 'hx.%d.%d.json' % (os.getpid(), i))
                procs.append((subprocess.Popen([binary, '--scope', scope, '--shard', '%d/%d' % (i, vlib.NPROC), '--out', out, '--deadline', str(left)], stdout=subprocess.DEVNULL, stderr=subprocess.PIPE), out))
            complete = True
            agg = {'units': 0, 'objects': 0, 'states': 0, 'transitions': 0}
            for p, out in procs:
                _, err = p.communicate()
                if p.returncode != 0 or not os.path.exists(out):
                    sys.stderr.write('hx shard failed rc=%s: %s\n' % (p.returncode, err.decode(errors='replace')[-1500:]))
                    raise SystemExit(2)
                d = json.load(open(out)); os.unlink(out)
                complete = complete and d['complete']
                cov['states'] += d['states']; cov['transitions'] += d['transitions']; cov['objects_explored'] += d['objects']; cov['self_loops'] += d['self_loops']
                cov['image_changing_transitions'] += d['image_changes']; cov['api_calls'] += d['api_calls']; cov['blocked_objects'] += d['blocked']; cov['searches_capped'] += d['capped']
                cov['traces_validated_against_impl'] += d['transitions']
                cov['alphabet_size_max'] = max(cov['alphabet_size_max'], d['alphabet_max'])
                for k in agg:
                    agg[k] += d[k]
                for k, v in d['notes'].items():
                    k = vlib.symbolise_sig(binary, k)
                    cov['notes'][k] = cov['notes'].get(k, 0) + v
                if len(cov['samples']) < 6:
                    cov['samples'] += d['samples'][:1]
                for f in d['failures']:
                    f['sig'] = vlib.symbolise_sig(binary, f['sig'])
                    res.add(f)
            entry = dict(agg, scope=scope)
            if complete:
                cov['scopes_completed'].append(entry)
            else:
                cov['exhaustive'] = False
                entry['reason'] = 'deadline reached inside scope'
                cov['scopes_incomplete'].append(entry)
        rc = res.finish(lambda f: self.replay_one(binary, f))
        cov['known_findings_hit'] = {k: v['count'] for k, v in res.known_hits.items()}
        cov['rule'] = ('for every dictionary object of the scopes (input set x palette x kind x parameters x {fresh, loaded}): BFS over call histories; states = distinct heap images reached, '
                       'transitions = alphabet operations executed from a state (each compared with the fresh-copy answer, pattern buffer compared byte-wise), '
                       'alphabet = look-ups (members, absent, foreign bytes), extract (valid and invalid IDs), prefix/substring/rank/table operations incl. unsupported ones, save, '
                       'and every interleaving of two open iterators with look-ups in between')
        if not cov['samples']:
            cov['samples'] = [{'note': 'nothing executed'}]
        vlib.write_evidence(prop, tier, seed, cov, time.time() - t0, res.confirmed, self.ASSUME)
        log('%s %s: %d objects, %d states, %d transitions (%d self-loops, %d image changes), %d blocked, exhaustive=%s, %.1fs, rc=%d' % (
            prop, tier, cov['objects_explored'], cov['states'], cov['transitions'], cov['self_loops'], cov['image_changing_transitions'], cov['blocked_objects'], cov['exhaustive'], time.time() - t0, rc))
        return rc


ENGINES['C14'] = HX()
