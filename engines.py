# engines.py -- per-property engines behind ./check
import json, os, sys, time, subprocess, re, hashlib, collections
import vlib
from vlib import VERIF

REPLAYS = os.path.join(VERIF, 'replays')
SCRATCH = os.path.join(VERIF, 'build', 'scratch')


def log(*a):
    print(*a, flush=True)


class Result:
    """accumulates failures, applies known findings, verifies witnesses by replay, prints verdict lines"""

    def __init__(self, prop):
        self.prop = prop
        self.known = vlib.load_known()
        self.failures = []          # symbolised failure records (dicts)
        self.known_hits = collections.OrderedDict()
        self.unknown = collections.OrderedDict()   # key -> first failure

    def add(self, f):
        self.failures.append(f)
        kid = vlib.match_known(f, self.known)
        if kid:
            h = self.known_hits.setdefault(kid, {'count': 0, 'example': f})
            h['count'] += f.get('count', 1)
        else:
            k = '|'.join([f['prop'], f['kind'], f['src'], f['op'], f['sig']])
            u = self.unknown.setdefault(k, {'count': 0, 'first': f, 'preds': None})
            u['count'] += f.get('count', 1)
            ps = set(f.get('preds', '').split(','))
            u['preds'] = ps if u['preds'] is None else (u['preds'] & ps)

    def finish(self, replay_fn, max_report=40):
        """replay_fn(f) -> (ok, text): re-executes the witness twice; returns exit status"""
        for kid, h in self.known_hits.items():
            desc = next(k['what'] for k in self.known['findings'] if k['id'] == kid)
            log('KNOWN-FINDING: property=%s %s [%s; %d failing cells this run]' % (self.prop, desc, kid, h['count']))
        if not self.unknown:
            return 0
        os.makedirs(REPLAYS, exist_ok=True)
        rc = 1
        n = 0
        for k, u in self.unknown.items():
            f = u['first']
            n += 1
            if n > max_report:
                log('... %d further distinct violation signatures not listed' % (len(self.unknown) - max_report))
                break
            name = '%s-%s.json' % (self.prop, hashlib.sha1(k.encode()).hexdigest()[:10])
            path = os.path.join(REPLAYS, name)
            f2 = dict(f)
            f2['common_preds'] = sorted(u['preds'])
            f2['cells_failing'] = u['count']
            json.dump(f2, open(path, 'w'), indent=1)
            ok, text = replay_fn(f) if replay_fn else (True, '')
            if not ok:
                log('UNREPRODUCED property=%s key=%s (%s) -- harness error, witness did not replay identically' % (self.prop, k, text))
                rc = 2 if rc != 1 else rc
                continue
            log('VIOLATION property=%s replay=%s' % (self.prop, path))
            log('   %s %s src=%s op=%s sig=%s cells=%d preds=%s :: %s' % (f['kind'], f['params'], f['src'], f['op'], f['sig'], u['count'], ','.join(sorted(u['preds'])), f.get('detail', '')[:160]))
        return rc


# ------------------------------------------------------------------------------------------------ BX
class BX:
    # scopes: list of (scope string, exhaustive-space description); iterated smallest first
    ALLPAL = 'abc+ext+sgn+spr'
    SCOPES = {
        'quick': [
            'sigma=2,L=2,pal=abc+ext,stretch=1,pd=quick,nf=2',
            'sigma=2,L=2,pal=sgn,stretch=130,pd=min,nf=1,maxn=3',
            'sigma=3,L=2,pal=abc,stretch=1,pd=min,nf=1,maxn=3',
        ],
        'thorough': [
            'sigma=2,L=2,pal=abc+ext+sgn+spr,stretch=1+130,pd=full,nf=4',
            'sigma=3,L=2,pal=abc,stretch=1,pd=quick,nf=2',
            'sigma=2,L=3,pal=abc,stretch=1,pd=quick,nf=2',
            'sigma=3,L=2,pal=ext+sgn+spr,stretch=1,pd=min,nf=2,maxn=4',
            'sigma=2,L=4,pal=abc,stretch=1,pd=quick,nf=1,co=2',
            'sigma=3,L=3,pal=abc,stretch=1,pd=min,nf=1,co=1',
            'sigma=2,L=2,pal=abc,stretch=1100,pd=min,nf=1,maxn=3',
        ],
    }
    DEADLINE = {'quick': 240, 'thorough': 2700}
    KINDS = {   # properties that only concern some kinds
        'C04': 'PFC+RPFC+HTFC+HHTFC+RPHTFC+RPDAC+FMINDEX+XBW',
        'C05': 'FMINDEX+XBW',
    }
    FLAVOUR = {'C07': ['asan', 'asan-grow']}
    ASSUME = ['small-scope hypothesis: inputs are all string sets of the listed scopes (alphabet <= 3 member bytes per cell, lengths <= 4 symbols x stretch)',
              'reference model = sorted std::vector<std::string> (src/vx.hpp Model)',
              'gcc 12 AddressSanitizer in recover mode; non-strict memcmp/str* interceptors']

    def scopes(self, prop, tier):
        out = []
        for s in self.SCOPES[tier]:
            if prop in self.KINDS:
                s += ',kinds=' + self.KINDS[prop]
            out.append(s)
        return out

    def replay_one(self, binary, f):
        cell = dict(kv.split('=') for kv in f.get('cell', '').split(',') if '=' in kv)
        cmd = [binary, '--one', '--prop', f['prop'], '--kind', f['kind'], '--params', f['params'], '--strings', f['strings'], '--src', f['src'],
               '--sigma', cell.get('sigma', '2'), '--L', cell.get('L', '2'), '--stretch', cell.get('stretch', '1'), '--pal', cell.get('pal', 'abc'), '--nf', cell.get('nf', '2')]
        keys = []
        for _ in range(2):
            p = subprocess.run(cmd, stdout=subprocess.PIPE, stderr=subprocess.PIPE, text=True)
            ks = set()
            for line in p.stdout.splitlines():
                if line.startswith('F '):
                    try:
                        j = json.loads(line[2:])
                    except Exception:
                        continue
                    ks.add('|'.join([j['op'], vlib.symbolise_sig(binary, j['sig'])]))
                elif line.startswith('X '):
                    j = json.loads(line[2:])
                    ks.add('|'.join([j['op'], vlib.symbolise_sig(binary, j['sig'])]))
                elif line.startswith('A ') and f['prop'] == 'C07':
                    sig, _, op = line[2:].partition('\t')
                    ks.add('|'.join([op, 'asan:' + vlib.symbolise_sig(binary, sig)]))
            keys.append(ks)
        want = '|'.join([f['op'], f['sig']])
        ok = all(want in ks for ks in keys)
        return ok, ('' if ok else 'wanted %s, replays gave %s' % (want, [sorted(k)[:6] for k in keys]))

    def replay(self, prop, path):
        f = json.load(open(path))
        flav = f.get('flavour', 'asan')
        b = vlib.build_tool(flav, 'bx')
        ok, text = self.replay_one(b, f)
        log(('REPRODUCED ' if ok else 'NOT-REPRODUCED ') + path + ' ' + text)
        return 1 if ok else 0

    def run(self, prop, tier, seed, deadline=None):
        t0 = time.time()
        deadline = deadline or float(os.environ.get('VERIF_DEADLINE', self.DEADLINE[tier]))
        flavours = self.FLAVOUR.get(prop, ['asan'])
        res = Result(prop)
        cov = {'states': 0, 'transitions': 0, 'traces_validated_against_impl': 0, 'samples': [], 'exhaustive': True,
               'scopes_completed': [], 'scopes_incomplete': [], 'blocked_subcells': 0, 'blocked_why': {}, 'fatal_outcomes': 0, 'timeouts': 0,
               'asan_reports_seen': 0, 'units': 0, 'subcells': 0, 'notes': {}}
        binaries = {}
        for flav in flavours:
            binaries[flav] = vlib.build_tool(flav, 'bx')
        for scope in self.scopes(prop, tier):
            for flav in flavours:
                left = deadline - (time.time() - t0)
                if left < 5:
                    cov['exhaustive'] = False
                    cov['scopes_incomplete'].append({'scope': scope, 'flavour': flav, 'reason': 'deadline reached before start'})
                    continue
                extra = ['--isolate', '1'] if prop == 'C07' else []
                m = self.run_scope(binaries[flav], prop, scope, left, extra)
                for f in m['failures']:
                    f['flavour'] = flav
                    res.add(f)
                cov['states'] += m['objects']
                cov['transitions'] += m['transitions']
                cov['traces_validated_against_impl'] += m['subcells']
                cov['units'] += m['units']
                cov['subcells'] += m['subcells']
                cov['blocked_subcells'] += m['blocked']
                cov['fatal_outcomes'] += m['fatals']
                cov['timeouts'] += m['timeouts']
                cov['asan_reports_seen'] += m['asan_reports']
                for k, v in m['blocked_why'].items():
                    cov['blocked_why'][k] = cov['blocked_why'].get(k, 0) + v
                for k, v in m['notes'].items():
                    cov['notes'][k] = cov['notes'].get(k, 0) + v
                if len(cov['samples']) < 8:
                    cov['samples'] += [dict(s, scope=scope) for s in m['samples'][:2]]
                entry = {'scope': scope, 'flavour': flav, 'input_sets': m['sets'], 'universe_strings': m['universe'], 'units': m['units'], 'units_total': m['units_total'],
                         'subcells': m['subcells'], 'objects': m['objects'], 'transitions': m['transitions'], 'wall_s': round(m['wall'], 1)}
                if m['complete']:
                    cov['scopes_completed'].append(entry)
                else:
                    cov['exhaustive'] = False
                    entry['reason'] = 'deadline reached inside scope'
                    cov['scopes_incomplete'].append(entry)
        b0 = binaries[flavours[0]]
        rc = res.finish(lambda f: self.replay_one(binaries.get(f.get('flavour', flavours[0]), b0), f))
        cov['known_findings_hit'] = {k: v['count'] for k, v in res.known_hits.items()}
        cov['distinct_failure_signatures'] = len(res.unknown) + len(res.known_hits)
        cov['rule'] = ('every non-empty subset S of U(sigma,L) (all strings of length <= L over sigma symbols; maxn/co restrict |S| as stated per scope) '
                       'x palettes x stretch factors x kinds x parameter domain pd x sources {fresh, generic loader, own loader (each load option), re-saved reload} '
                       'x the whole query universe; states = dictionary objects examined, transitions = API calls executed and compared with the reference model, '
                       'traces_validated = sub-cells (kind, parameters, source) run on the real code')
        if not cov['samples']:
            cov['samples'] = [{'note': 'no unit executed'}]
        vlib.write_evidence(prop, tier, seed, cov, time.time() - t0, len(res.unknown), self.ASSUME)
        log('%s %s: %d units, %d sub-cells, %d objects, %d calls, %d blocked, exhaustive=%s, %.1fs, rc=%d' % (
            prop, tier, cov['units'], cov['subcells'], cov['states'], cov['transitions'], cov['blocked_subcells'], cov['exhaustive'], time.time() - t0, rc))
        return rc

    def run_scope(self, binary, prop, scope, left, extra):
        t = time.time()
        os.makedirs(SCRATCH, exist_ok=True)
        m = run_bx_scope(binary, prop, scope, left, SCRATCH, extra)
        m['wall'] = time.time() - t
        return m


def run_bx_scope(binary, prop, scope, deadline_s, outdir, extra):
    nshards = vlib.NPROC
    procs = []
    tag = hashlib.sha1((scope + binary).encode()).hexdigest()[:8] + '.%d' % os.getpid()
    for i in range(nshards):
        out = os.path.join(outdir, 'bx.%s.%s.%d.json' % (prop, tag, i))
        cmd = [binary, '--prop', prop, '--scope', scope, '--shard', '%d/%d' % (i, nshards), '--out', out,
               '--deadline', str(max(1, deadline_s))] + extra
        procs.append((subprocess.Popen(cmd, stdout=subprocess.DEVNULL, stderr=subprocess.PIPE), out))
    merged = {'scope': scope, 'complete': True, 'units_total': 0, 'units': 0, 'subcells': 0, 'objects': 0, 'transitions': 0,
              'blocked': 0, 'fatals': 0, 'timeouts': 0, 'asan_reports': 0, 'failures': [], 'samples': [], 'blocked_why': {},
              'notes': {}, 'asan_sigs': {}, 'sets': 0, 'universe': 0}
    for p, out in procs:
        _, err = p.communicate()
        if p.returncode != 0 or not os.path.exists(out):
            sys.stderr.write('bx shard failed rc=%s: %s\n' % (p.returncode, err.decode(errors='replace')[-2000:]))
            raise SystemExit(2)
        d = json.load(open(out))
        os.unlink(out)
        merged['complete'] = merged['complete'] and d['complete']
        merged['units_total'] = d['units_total']
        merged['sets'] = d['sets']
        merged['universe'] = d['universe']
        for k in ('units', 'subcells', 'objects', 'transitions', 'blocked', 'fatals', 'timeouts', 'asan_reports'):
            merged[k] += d[k]
        for k in ('blocked_why', 'notes', 'asan_sigs'):
            for a, b in d[k].items():
                merged[k][a] = merged[k].get(a, 0) + b
        merged['failures'] += d['failures']
        if len(merged['samples']) < 6:
            merged['samples'] += d['samples'][:2]
    for f in merged['failures']:
        f['sig'] = vlib.symbolise_sig(binary, f['sig'])
    for k in ('blocked_why', 'asan_sigs'):
        merged[k] = {vlib.symbolise_sig(binary, a): b for a, b in merged[k].items()}
    return merged


ENGINES = {}
_bx = BX()
for _p in ['C01', 'C02', 'C03', 'C04', 'C05', 'C06', 'C07', 'C08', 'C12', 'C13', 'C15', 'C16']:
    ENGINES[_p] = _bx
