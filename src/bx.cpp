// bx.cpp -- BX: bounded-exhaustive dictionary explorer (DESIGN.md §3).
// Enumerates every valid input set of a declared scope x palettes x stretches x kinds x parameter
// vectors x sources, runs the property's oracle against the reference model on the REAL code, and
// emits failure records + coverage counters.  One forked child per unit; a fatal outcome is an observation.
#include "oracles.hpp"
#include "scope.hpp"
#include <typeinfo>

extern "C" const char *__asan_default_options() {
  return "halt_on_error=0:detect_leaks=0:strict_memcmp=0:strict_string_checks=0:symbolize=0:print_summary=0:"
         "allocator_may_return_null=1:max_allocation_size_mb=1024:detect_stack_use_after_return=0:"
         "malloc_context_size=3:fast_unwind_on_malloc=1:print_legend=0:print_full_thread_history=0:"
         "max_malloc_fill_size=0:detect_odr_violation=0:handle_abort=1:allow_user_segv_handler=0";
}
extern "C" int __sanitizer_install_malloc_and_free_hooks(void (*)(const volatile void *, size_t), void (*)(const volatile void *));
static volatile int g_fill = 0xA5;
// C09: with g_fill_thr set, memory allocated by the n-th thread created in this process is filled with g_fill ^ n, so heap bytes
// that were never written and reach the image differ between the single-thread reference build and every other build (as they
// do in production, where each worker allocates from its own arena)
static volatile int g_fill_thr = 0;
static int g_thr_next = 0;
static __thread int g_thr_ord = -1;
static void malloc_hook(const volatile void *p, size_t n) {
  if (g_fill < 0 || n > (8u << 20)) return;
  int f = g_fill;
  if (g_fill_thr) { if (g_thr_ord < 0) g_thr_ord = __atomic_fetch_add(&g_thr_next, 1, __ATOMIC_RELAXED); f ^= (g_thr_ord & 0x7f); }
  memset((void *)p, f, n);
}
static void free_hook(const volatile void *) {}

// ------------------------------------------------------------------ child-side state
struct SubCell { int kind; Params p; str src; };
static int OUTFD = -1;          // pipe to parent
static bool NOFRAMES = false;
static void emit_frame(const char *type, const str &key, const str &payload) {
  if (OUTFD < 0 || NOFRAMES) return;
  str h = fmt("C %s %s %zu\n", type, hex(key).c_str(), payload.size());
  str all = h + payload + "\n"; size_t o = 0;
  while (o < all.size()) { ssize_t w = write(OUTFD, all.data() + o, all.size() - o); if (w <= 0) _exit(99); o += w; }
}
static void emit(const str &line) { str l = line + "\n"; size_t o = 0; while (o < l.size()) { ssize_t w = write(OUTFD, l.data() + o, l.size() - o); if (w <= 0) _exit(99); o += w; } }

struct Cache {                  // per-child caches (lost on crash/restart; recomputed on demand)
  std::map<str, str> img;       // kind|params -> image
  std::map<str, std::vector<str>> obs;   // key -> observation vector
  std::map<str, bool> obs_bad;  // key -> fresh observation not obtainable (crash)
  std::map<str, str> img_tainted;   // kind|params -> ASan signature seen while that image was produced
};
// The caches live in the PARENT (one per unit): every sub-cell runs in its own forked child (ASan reports a
// faulting PC only once per process, so sharing a process between sub-cells would hide repeated memory errors),
// the child inherits the parent's cache through fork and sends new entries back on the pipe.
static Cache CA;
static void emit_frame(const char *type, const str &key, const str &payload);
static void cache_put_img(const str &key, const str &v) { CA.img[key] = v; emit_frame("img", key, v); }
static void cache_put_obs(const str &key, const std::vector<str> &v) { CA.obs[key] = v; str b; for (auto &x : v) { b += x; b += '\n'; } emit_frame("obs", key, b); }
static void cache_put_bad(const str &key) { CA.obs_bad[key] = true; emit_frame("bad", key, ""); }
static void cache_put_taint(const str &key, const str &sig) { CA.img_tainted[key] = sig; emit_frame("tnt", key, sig); }
static str CELLINFO;
static int STDERR_MEMFD = -1;

static StringDictionary *x_build(Ctx &c, int k, const Params &p, const strs &S) {
  pg_op("build"); c.transitions++;
  StringDictionary *d = 0;
  GUARD(d = build_kind(k, p, S), { c.fail("build", "exception", "constructor threw"); return 0; });
  return d;
}
static str IMAGE_TAINT;    // set when the image needed by this sub-cell came from a build/save with a memory error
static bool get_image(Ctx &c, int k, const Params &p, const strs &S, str &img) {
  str key = fmt("%d|", k) + p.s();
  auto it = CA.img.find(key);
  if (it != CA.img.end()) { img = it->second; return true; }
  auto tt = CA.img_tainted.find(key);
  if (tt != CA.img_tainted.end() && c.prop != "C07") { IMAGE_TAINT = tt->second; return false; }
  str keep = c.src; c.src = "fresh"; pg_src("fresh");
  size_t before = ASAN_REPORTS.size();
  StringDictionary *d = x_build(c, k, p, S);
  if (!d) { c.src = keep; return false; }
  bool ok = x_save(c, d, img);
  x_delete(c, d);
  c.src = keep; pg_src(keep.c_str());
  str taint; for (size_t i = before; i < ASAN_REPORTS.size(); i++) if (ASAN_REPORTS[i].second == "build" || ASAN_REPORTS[i].second == "save") { taint = ASAN_REPORTS[i].first; break; }
  if (!taint.empty()) { cache_put_taint(key, taint); if (c.prop != "C07") { IMAGE_TAINT = taint; return false; } return ok; }
  if (ok) cache_put_img(key, img);
  return ok;
}
// materialise the object for a source; returns 0 if not obtainable (failure recorded where the property owns it)
static StringDictionary *get_object(Ctx &c, int k, const Params &p, const strs &S, const str &src, str *img_out = 0) {
  if (src == "fresh") { pg_src("fresh"); return x_build(c, k, p, S); }
  str img;
  if (!get_image(c, k, p, S, img)) return 0;
  if (img_out) *img_out = img;
  pg_src(src.c_str());
  if (src.compare(0, 4, "gen:") == 0) return x_load(c, k, img, true, atoi(src.c_str() + 4));
  if (src.compare(0, 4, "own:") == 0) return x_load(c, k, img, false, atoi(src.c_str() + 4));
  if (src == "gen2") {
    StringDictionary *d1 = x_load(c, k, img, true, 1);
    if (!d1) return 0;
    str img2; bool ok = x_save(c, d1, img2); x_delete(c, d1);
    if (!ok) return 0;
    return x_load(c, k, img2, true, 1);
  }
  return 0;
}

// crash-safe observation of a fresh object in a grandchild (used as reference by C06/C12)
static bool safe_obs(int k, const Params &p, const Cell &cell, const str &src, bool idfree, std::vector<str> &out) {
  int fd[2]; if (pipe(fd)) return false;
  pid_t pid = fork();
  if (pid == 0) {
    close(fd[0]);
    Ctx c; c.prop = "ref"; c.set_cell(k, p, cell.S); c.src = src;
    Model M(cell.S);
    StringDictionary *d = get_object(c, k, p, cell.S, src);
    if (!d) _exit(3);
    std::vector<str> o; observe(c, d, M, cell, idfree, o);
    str blob; for (auto &s : o) { blob += s; blob += '\n'; }
    size_t off = 0; while (off < blob.size()) { ssize_t w = write(fd[1], blob.data() + off, blob.size() - off); if (w <= 0) break; off += w; }
    _exit(0);
  }
  close(fd[1]);
  str blob; char buf[65536]; ssize_t r;
  while ((r = read(fd[0], buf, sizeof buf)) > 0) blob.append(buf, r);
  close(fd[0]);
  int st = 0; waitpid(pid, &st, 0);
  if (!(WIFEXITED(st) && WEXITSTATUS(st) == 0)) return false;
  out = split(blob, '\n'); if (!out.empty() && out.back().empty()) out.pop_back();
  return true;
}
static bool ref_obs(const str &key, int k, const Params &p, const Cell &cell, const str &src, bool idfree, std::vector<str> &out) {
  if (CA.obs.count(key)) { out = CA.obs[key]; return true; }
  if (CA.obs_bad.count(key)) return false;
  if (safe_obs(k, p, cell, src, idfree, out)) { cache_put_obs(key, out); return true; }
  cache_put_bad(key); return false;
}
static str first_diff(const std::vector<str> &a, const std::vector<str> &b) {
  size_t n = std::min(a.size(), b.size());
  for (size_t i = 0; i < n; i++) if (a[i] != b[i]) return a[i].substr(0, 120) + "  vs  " + b[i].substr(0, 120);
  if (a.size() != b.size()) return fmt("vector lengths %zu vs %zu", a.size(), b.size());
  return "";
}
static str obs_tag(const str &line) { size_t p = line.find_first_of(":="); return p == str::npos ? line : line.substr(0, p); }
static const char *tag_op(const str &t) {
  if (t == "L") return "locate"; if (t == "E" || t == "E*" || t == "RT") return "extract"; if (t == "LP") return "locatePrefix";
  if (t == "EP") return "extractPrefix"; if (t == "LS") return "locateSubstr"; if (t == "ES") return "extractSubstr";
  if (t == "R") return "rank"; if (t == "T") return "extractTable"; if (t == "n") return "numElements"; if (t == "ml") return "maxLength";
  return "observe";
}
static void compare_obs(Ctx &c, const std::vector<str> &ref, const std::vector<str> &got, const char *sigprefix, const str &what) {
  size_t n = std::min(ref.size(), got.size());
  std::set<str> reported;
  for (size_t i = 0; i < n; i++) if (ref[i] != got[i]) {
    str t = obs_tag(got[i]);
    if (reported.count(t)) continue;
    reported.insert(t);
    c.fail(tag_op(t), str(sigprefix) + "_differs", what + ": " + ref[i].substr(0, 100) + " vs " + got[i].substr(0, 100));
  }
  if (ref.size() != got.size()) c.fail("observe", str(sigprefix) + "_differs", what + fmt(": %zu vs %zu observations", ref.size(), got.size()));
}

static const char *expected_class(int k) {
  switch (k) {
  case K_PFC: return typeid(StringDictionaryPFC).name(); case K_RPFC: return typeid(StringDictionaryRPFC).name();
  case K_HTFC: return typeid(StringDictionaryHTFC).name(); case K_HHTFC: return typeid(StringDictionaryHHTFC).name();
  case K_RPHTFC: return typeid(StringDictionaryRPHTFC).name(); case K_RPDAC: return typeid(StringDictionaryRPDAC).name();
  case K_HASHHF: return typeid(StringDictionaryHASHHF).name(); case K_HASHRPF: return typeid(StringDictionaryHASHRPF).name();
  case K_HASHUFFDAC: return typeid(StringDictionaryHASHUFFDAC).name(); case K_HASHRPDAC: return typeid(StringDictionaryHASHRPDAC).name();
  case K_BLOCKS: return typeid(StringDictionaryHASHRPDACBlocks).name(); case K_FMINDEX: return typeid(StringDictionaryFMINDEX).name();
  case K_XBW: return typeid(StringDictionaryXBW).name();
  }
  return "?";
}
static Params default_params(int k) {
  Params p;
  if (k_bucketed(k)) p.a = 2; else if (k == K_BLOCKS) { p.a = 10; p.b = 3; p.c = 1; } else if (k_hash(k)) p.a = 10; else if (k == K_FMINDEX) { p.a = 0; p.b = 4; p.c = 2; }
  return p;
}

// light usability probe used by composite checks: first and last member round-trip
static void probe_roundtrip(Ctx &c, StringDictionary *d, const Model &M, const char *op, const char *sig) {
  for (auto &s : {M.S.front(), M.S.back()}) {
    size_t id = x_locate(c, d, s);
    if (id < 1 || id > M.n()) { c.fail(op, sig, fmt("locate(member)=%zu", id), s); return; }
    XAns a = x_extract(c, d, id);
    if (a.null || a.s != s) { c.fail(op, sig, "extract(locate(member)) != member", s); return; }
  }
}

// ------------------------------------------------------------------ one sub-cell
static void run_subcell(Ctx &c, const Cell &cell, const SubCell &sc) {
  const str &prop = c.prop;
  int k = sc.kind; const Params &p = sc.p;
  c.set_cell(k, p, cell.S); c.src = sc.src; pg_src(sc.src.c_str());
  Model M(cell.S);

  if (prop == "C01" || prop == "C02" || prop == "C03" || prop == "C04" || prop == "C05" || prop == "C13" || prop == "C15" || prop == "C16") {
    if (sc.src == "loaders") {     // C16 loader part: a kind's loader given another kind's image -> NULL
      str img; if (!get_image(c, k, p, cell.S, img)) return;
      c.src = "loaders"; pg_src("loaders");
      for (int k2 = 0; k2 < NKINDS; k2++) if (k2 != k) {
        for (uint opt : {1u, 2u, 3u}) {
          if (opt > 1 && !k_has_loadopt(k2)) continue;      // every load option of the kinds that take one
          StringDictionary *d2 = x_load(c, k2, img, false, opt);
          if (d2) { c.fail("load_own", "foreign_image_accepted", fmt("%s::load accepted a %s image", KNAME[k2], KNAME[k])); /* do not destroy: object is garbage */ }
        }
      }
      // generic loader: tag replaced by near misses of every known tag and all tags < 4096
      std::set<uint32_t> known(KTAG, KTAG + NKINDS);
      std::set<uint32_t> tags;
      for (uint32_t t = 0; t < 4096; t++) tags.insert(t);
      for (uint32_t kt : known) { for (int b = 0; b < 32; b++) tags.insert(kt ^ (1u << b)); tags.insert(kt + 256); tags.insert(kt << 8); tags.insert(kt << 16); tags.insert(kt << 24); tags.insert(kt | 0x80000000u); }
      tags.insert(0xFFFFFFFFu); tags.insert(0x7FFFFFFFu); tags.insert(0x80000000u);
      str im2 = img;
      for (uint32_t t : tags) if (!known.count(t)) {
        memcpy(&im2[0], &t, 4);
        pg_op("load_generic", fmt("tag=%u", t)); c.transitions++;
        MemBuf mb(im2.data(), im2.size()); std::istream in(&mb); StringDictionary *d2 = 0;
        GUARD(d2 = StringDictionary::load(in, 1), { c.fail("load_generic", "exception", fmt("tag %u", t)); continue; });
        if (d2) c.fail("load_generic", "unknown_tag_accepted", fmt("generic loader returned an object for tag %u", t), fmt("%u", t));
      }
      c.objects++;
      return;
    }
    StringDictionary *d = get_object(c, k, p, cell.S, sc.src);
    if (!d) {
      // not obtainable: generic loader returning NULL etc. is C06's business; count as blocked here
      if (IMAGE_TAINT.empty()) emit("K " + str(PG->op));
      return;
    }
    c.objects++;
    if (prop == "C01") o_C01(c, d, M);
    else if (prop == "C02") o_C02(c, d, M, cell);
    else if (prop == "C03") o_C03(c, d, M);
    else if (prop == "C04") o_C04(c, d, M, cell);
    else if (prop == "C05") o_C05(c, d, M, cell);
    else if (prop == "C13") o_C13(c, d, M, cell);
    else if (prop == "C15") o_C15(c, d, M);
    else if (prop == "C16") o_C16_ops(c, d, M, cell);
    x_delete(c, d);
    return;
  }

  if (prop == "C06") {
    if (sc.src == "fresh") {   // reference observation (cached for the loaded sources)
      std::vector<str> o; str key = fmt("%d|", k) + p.s() + "|fresh";
      if (!ref_obs(key, k, p, cell, "fresh", false, o)) emit("K fresh_unobservable");
      c.objects++;
      return;
    }
    if (sc.src == "concat") {  // self-delimitation: images follow one another in one stream
      str img; if (!get_image(c, k, p, cell.S, img)) { if (IMAGE_TAINT.empty()) emit("K build"); return; }
      c.src = "concat"; pg_src("concat");
      for (int k2 = 0; k2 < NKINDS; k2++) {
        Params p2 = default_params(k2); str img2;
        Ctx side; side.prop = "side"; side.set_cell(k2, p2, cell.S);
        // image of the other kind is produced crash-safely through the cache of this child; skip if not obtainable
        str key2 = fmt("%d|", k2) + p2.s();
        if (!CA.img.count(key2)) {
          int fd[2]; if (pipe(fd)) continue; pid_t pid = fork();
          if (pid == 0) { close(fd[0]); StringDictionary *d2 = build_kind(k2, p2, cell.S); str im = save_img(d2);
            size_t off = 0; while (off < im.size()) { ssize_t w = write(fd[1], im.data() + off, im.size() - off); if (w <= 0) break; off += w; } _exit(0); }
          close(fd[1]); str blob; char buf[65536]; ssize_t r; while ((r = read(fd[0], buf, sizeof buf)) > 0) blob.append(buf, r); close(fd[0]);
          int st = 0; waitpid(pid, &st, 0);
          cache_put_img(key2, (WIFEXITED(st) && WEXITSTATUS(st) == 0) ? blob : str());
        }
        img2 = CA.img[key2];
        if (img2.empty()) continue;
        str stream = img + img2 + img;
        std::istringstream in(stream);
        pg_op("load_own", fmt("concat %s+%s+%s", KNAME[k], KNAME[k2], KNAME[k])); c.transitions += 3;
        StringDictionary *a = 0, *b = 0, *e = 0;
        GUARD({
          a = load_own(k, in, 1);
          long pos1 = in.fail() ? -1 : (long)in.tellg();
          if (!a) c.fail("load_own", "concat_first_null", fmt("first image of %s+%s not loaded", KNAME[k], KNAME[k2]));
          else if (pos1 != (long)img.size()) c.fail("load_own", "not_self_delimiting", fmt("%s loader consumed %ld bytes of a %zu-byte image", KNAME[k], pos1, img.size()));
          else {
            b = load_own(k2, in, 1);
            long pos2 = in.fail() ? -1 : (long)in.tellg();
            if (!b) c.fail("load_own", "concat_second_null", fmt("%s image following a %s image not loaded", KNAME[k2], KNAME[k]));
            else if (pos2 != (long)(img.size() + img2.size())) { /* k2's problem, reported when k2 is first */ }
            else {
              e = load_own(k, in, 1);
              if (!e) c.fail("load_own", "concat_third_null", fmt("%s image following %s+%s not loaded", KNAME[k], KNAME[k], KNAME[k2]));
              else { long pos3 = in.fail() ? -1 : (long)in.tellg(); if (pos3 != (long)stream.size()) c.fail("load_own", "not_self_delimiting", fmt("third image: consumed up to %ld of %zu", pos3, stream.size())); }
            }
          } },
          { c.fail("load_own", "exception", "concat load threw"); });
        if (a) { probe_roundtrip(c, a, M, "load_own", "concat_object_broken"); }
        if (e) { probe_roundtrip(c, e, M, "load_own", "concat_object_broken"); }
        if (a) x_delete(c, a); if (b) x_delete(c, b); if (e) x_delete(c, e);
        c.objects++;
      }
      return;
    }
    // loaded source: must answer every query like the original
    str img;
    StringDictionary *d = get_object(c, k, p, cell.S, sc.src, &img);
    if (!d) {
      if (!IMAGE_TAINT.empty()) return;
      if (str(PG->op) == "build" || (str(PG->op) == "save" && false)) { emit("K build"); return; }
      c.fail(PG->op, "load_returned_null", "loader returned NULL for a valid image (src " + sc.src + ")");
      return;
    }
    c.objects++;
    if (sc.src.compare(0, 3, "gen") == 0) {
      if (str(typeid(*d).name()) != expected_class(k)) c.fail("load_generic", "wrong_dynamic_type", fmt("generic loader returned %s", typeid(*d).name()));
    }
    std::vector<str> got; observe(c, d, M, cell, false, got);
    std::vector<str> ref; str key = fmt("%d|", k) + p.s() + "|fresh";
    if (ref_obs(key, k, p, cell, "fresh", false, ref)) compare_obs(c, ref, got, "loaded_vs_built", "reloaded object answers differently from the built one");
    else {   // original not observable: fall back to the model's answers
      emit("K fresh_unobservable_model_fallback");
      o_C01(c, d, M); o_C02(c, d, M, cell); o_C03(c, d, M); o_C04(c, d, M, cell); o_C05(c, d, M, cell); o_C13(c, d, M, cell); o_C15(c, d, M);
    }
    x_delete(c, d);
    return;
  }

  if (prop == "C12") {
    bool idfree = k_hash(k);
    std::vector<Params> dom = param_domain(k, "full", cell.S, "C12");   // reference = first legal vector of the full domain
    Params p0 = dom.empty() ? p : dom[0];
    str src = sc.src;
    if (k_bucketed(k) && p.a < 2) ftruncate(STDERR_MEMFD, 0), lseek(STDERR_MEMFD, 0, SEEK_SET);
    StringDictionary *d = get_object(c, k, p, cell.S, src);
    if (!d) { if (IMAGE_TAINT.empty()) emit("K " + str(PG->op)); return; }
    c.objects++;
    if (k_bucketed(k) && p.a < 2 && src == "fresh") {
      char buf[512]; ssize_t r = pread(STDERR_MEMFD, buf, sizeof buf - 1, 0); if (r < 0) r = 0; buf[r] = 0;
      if (!strstr(buf, "WARNING")) c.fail("build", "no_warning_for_small_bucketsize", fmt("bucket size %ld accepted without warning", p.a));
    }
    std::vector<str> got; observe(c, d, M, cell, idfree, got);
    x_delete(c, d);
    std::vector<str> ref; str key = fmt("%d|", k) + p0.s() + "|" + src + (idfree ? "|idfree" : "");
    if (p.s() == p0.s()) { cache_put_obs(key, got); }
    else if (ref_obs(key, k, p0, cell, src, idfree, ref)) {
      // an FM-index built without BWT sampling documents that it has no substring search: compare the rest
      auto nosub = [](const std::vector<str> &v) { std::vector<str> o; for (auto &x : v) { str t = obs_tag(x); if (t != "LS" && t != "ES") o.push_back(x); } return o; };
      bool drop = (k == K_FMINDEX) && ((p.c == 0) != (p0.c == 0));
      compare_obs(c, drop ? nosub(ref) : ref, drop ? nosub(got) : got, "param", fmt("parameters %s vs %s", p0.s().c_str(), p.s().c_str()));
    }
    else emit("K reference_unobservable");
    // all order-preserving kinds agree with one another (reference: PFC bucket 2), on the shared operations
    if (k_ordered(k) && k != K_PFC && p.s() == p0.s()) {
      std::vector<str> pf; Params pp; pp.a = 2; str keyp = fmt("%d|", K_PFC) + pp.s() + "|" + src;
      if (ref_obs(keyp, K_PFC, pp, cell, src, false, pf)) {
        auto filt = [](const std::vector<str> &v) { std::vector<str> o; for (auto &s : v) { str t = obs_tag(s); if (t == "LS" || t == "ES" || t == "ml") continue; str x = s; size_t q = x.find("NULLIT"); if (q != str::npos) x.erase(q, 6); o.push_back(x); } return o; };
        compare_obs(c, filt(pf), filt(got), "cross_kind", "order-preserving kind disagrees with PFC");
      } else emit("K pfc_reference_unobservable");
    }
    return;
  }

  if (prop == "C09") {
    // data dimension of C09: same input/overhead/cut, any thread count -> image identical to the 1-thread image,
    // blocks in input order, every block complete (under the OS schedule; the schedule dimension is SX driver B)
    if (k != K_BLOCKS || sc.src != "fresh") return;
    g_thr_ord = 0; g_thr_next = 1; g_fill_thr = 1;   // main thread = 0, the reference build's worker = 1
    Params p1 = p; p1.c = 1;
    str ref;
    { str key = fmt("blk1|") + p1.s(); auto it = CA.img.find(key);
      if (it != CA.img.end()) ref = it->second;
      else { StringDictionary *d1 = x_build(c, k, p1, cell.S); if (!d1) return; bool ok = x_save(c, d1, ref); x_delete(c, d1); if (!ok) return; cache_put_img(key, ref); } }
    if (g_thr_next < 2) g_thr_next = 2;   // (reference taken from the cache) every worker of the build under test differs from the reference's
    StringDictionary *d = x_build(c, k, p, cell.S); if (!d) return;
    c.objects++;
    StringDictionaryHASHRPDACBlocks *b = (StringDictionaryHASHRPDACBlocks *)d;
    // expected partition: a block closes when its accumulated size exceeds the cut size (or at the last string)
    std::vector<size_t> starts; { size_t acc = 0; bool first = true; for (size_t i = 0; i < cell.S.size(); i++) { if (first) { starts.push_back(i); first = false; } acc += cell.S[i].size() + 1; if (acc > (size_t)p.b) { acc = 0; first = true; } } }
    pg_op("inspect_blocks");
    if (b->parts.size() != starts.size()) c.fail("build", "wrong_block_count", fmt("%zu blocks, expected %zu", b->parts.size(), starts.size()));
    else for (size_t i = 0; i < starts.size(); i++) {
      if (!b->parts[i]) { c.fail("build", "null_block_after_constructor", fmt("block %zu is null", i)); break; }
      if (b->starting_indexes[i] != starts[i] || b->cut_samples[i] != cell.S[starts[i]]) { c.fail("build", "blocks_out_of_input_order", fmt("block %zu starts at %lu/'%s', expected %zu/'%s'", i, b->starting_indexes[i], show(b->cut_samples[i]).c_str(), starts[i], show(cell.S[starts[i]]).c_str())); break; }
      size_t end = i + 1 < starts.size() ? starts[i + 1] : cell.S.size();
      if (b->parts[i]->numElements() != end - starts[i]) { c.fail("build", "block_incomplete", fmt("block %zu holds %zu strings, expected %zu", i, (size_t)b->parts[i]->numElements(), end - starts[i])); break; }
    }
    str img; if (x_save(c, d, img) && img != ref) c.fail("save", "image_differs_from_single_thread", fmt("image with %ld threads differs from the 1-thread image (sizes %zu/%zu)", p.c, img.size(), ref.size()));
    x_delete(c, d);
    return;
  }

  if (prop == "C08") {
    // (b) two builds -> identical images, also under a different heap fill byte
    str imgA, imgB, imgC;
    if (sc.src == "fresh") {
      g_fill = 0xA5; StringDictionary *d1 = x_build(c, k, p, cell.S); if (!d1) return;
      c.objects++;
      // (a) save is pure: answers before == answers after, second save identical
      std::vector<str> before, after;
      observe(c, d1, M, cell, false, before);
      if (!x_save(c, d1, imgA)) { x_delete(c, d1); return; }
      str imgA2; if (!x_save(c, d1, imgA2)) { x_delete(c, d1); return; }
      if (imgA2 != imgA) c.fail("save", "second_save_differs", fmt("second save of the same object differs (sizes %zu/%zu)", imgA.size(), imgA2.size()));
      observe(c, d1, M, cell, false, after);
      compare_obs(c, before, after, "answers_changed_by_save", "answers before vs after save");
      x_delete(c, d1);
      StringDictionary *d2 = x_build(c, k, p, cell.S); if (!d2) return;
      if (x_save(c, d2, imgB) && imgB != imgA) c.fail("save", "rebuild_image_differs", fmt("two builds of the same input give different images (sizes %zu/%zu)", imgA.size(), imgB.size()));
      x_delete(c, d2);
      g_fill = 0x5A; StringDictionary *d3 = x_build(c, k, p, cell.S); g_fill = 0xA5; if (!d3) return;
      g_fill = 0x5A; bool ok3 = x_save(c, d3, imgC); g_fill = 0xA5;
      if (ok3 && imgC != imgA) {
        size_t pos = 0; while (pos < std::min(imgA.size(), imgC.size()) && imgA[pos] == imgC[pos]) pos++;
        c.fail("save", "image_contains_uninitialised_memory", fmt("image depends on the heap fill byte (first difference at offset %zu of %zu)", pos, imgA.size()));
      }
      x_delete(c, d3);
      return;
    }
    // loaded object: save(load(img)) == img, or at least loads equivalently; repeated saves identical; answers unchanged
    str img;
    StringDictionary *d = get_object(c, k, p, cell.S, sc.src, &img);
    if (!d) { if (IMAGE_TAINT.empty()) emit("K " + str(PG->op)); return; }
    c.objects++;
    std::vector<str> before, after;
    observe(c, d, M, cell, false, before);
    str s1, s2;
    if (!x_save(c, d, s1) || !x_save(c, d, s2)) { x_delete(c, d); return; }
    if (s1 != s2) c.fail("save", "second_save_differs", "second save of a loaded object differs");
    observe(c, d, M, cell, false, after);
    compare_obs(c, before, after, "answers_changed_by_save", "answers before vs after save (loaded object)");
    x_delete(c, d);
    if (s1 != img) {
      emit("N resave_not_identical");
      // weaker alternative: must load equivalently
      uint opt = (sc.src.size() > 4 && sc.src[3] == ':') ? atoi(sc.src.c_str() + 4) : 1;
      StringDictionary *e = x_load(c, k, s1, false, opt);
      if (!e) c.fail("save", "resaved_image_not_loadable", fmt("image re-saved by a loaded object is not accepted by the loader (first byte diff); src %s", sc.src.c_str()));
      else { std::vector<str> o2; observe(c, e, M, cell, false, o2); compare_obs(c, before, o2, "resaved_image_not_equivalent", "object loaded from the re-saved image"); x_delete(c, e); }
    } else emit("N resave_identical");
    return;
  }

  if (prop == "C07") {
    // every operation of every oracle under ASan; plus heap-fill differential of all answers and of the image
    std::vector<str> obsA, obsB; str imgA, imgB;
    for (int pass = 0; pass < 2; pass++) {
      g_fill = pass ? 0x5A : 0xA5;
      StringDictionary *d = get_object(c, k, p, cell.S, sc.src);
      if (!d) { g_fill = 0xA5; if (pass == 0 && IMAGE_TAINT.empty()) emit("K " + str(PG->op)); CA.img.clear(); continue; }
      c.objects++;
      std::vector<str> &o = pass ? obsB : obsA;
      observe(c, d, M, cell, false, o);
      for (size_t id : bad_ids(M.n())) { XAns a = x_extract(c, d, id); o.push_back(fmt("BE:%zu=", id) + (a.null ? "NULL" : hex(a.s))); }
      for (size_t r : {(size_t)0, M.n() + 1, (size_t)0xFFFFFFFFu}) { long lr = x_locateRank(c, d, r); XAns a = x_extractRank(c, d, r); o.push_back(fmt("BR:%zu=%ld/", r, lr) + (a.null ? "NULL" : hex(a.s))); }
      x_save(c, d, pass ? imgB : imgA);
      x_delete(c, d);
      CA.img.clear();    // the image cache was produced under the other fill byte
    }
    g_fill = 0xA5;
    if (!obsA.empty() && !obsB.empty()) {
      compare_obs(c, obsA, obsB, "depends_on_uninitialised_heap", "answers differ between heap fill bytes 0xA5 and 0x5A");
      if (imgA != imgB) c.fail("save", "depends_on_uninitialised_heap", "saved image differs between heap fill bytes");
    }
    return;
  }
}

static std::vector<SubCell> subcells_for(const str &prop, const Scope &sc, const Cell &cell) {
  std::vector<SubCell> v;
  for (int k : sc.kinds) {
    std::vector<Params> dom = param_domain(k, sc.pd, cell.S, prop);
    for (auto &p : dom) {
      strs srcs = sources_for(k, sc.pd);
      if (prop == "C06") { srcs.push_back("concat"); }
      if (prop == "C16") { srcs.push_back("loaders"); }
      if (prop == "C08" || prop == "C12" || prop == "C07") { /* all sources */ }
      for (auto &s : srcs) {
        if (prop == "C16" && s == "loaders" && !(p.s() == dom[0].s())) continue;
        if (prop == "C06" && s == "concat" && !(p.s() == dom[0].s())) continue;
        if (prop == "C12" && s != "fresh" && s != "gen:1" && s != "own:1") continue;
        if (prop == "C09" && s != "fresh") continue;
        v.push_back({k, p, s});
      }
    }
  }
  return v;
}

static int ISOLATE = 1;     // >0: at most this many sub-cells per child (ASan reports each PC once per process)
static void child_main(const str &prop, const Cell &cell, const std::vector<SubCell> &subs, int start, int fd) {
  OUTFD = fd;
  int dn = open("/dev/null", O_WRONLY); dup2(dn, 1);
  STDERR_MEMFD = memfd_create("stderr", 0); if (!getenv("VX_STDERR")) dup2(STDERR_MEMFD, 2);
  asan_init();
  int end = ISOLATE > 0 ? std::min((int)subs.size(), start + ISOLATE) : (int)subs.size();
  for (int i = start; i < end; i++) {
    PG->sub = i; PG->asan_n = 0; ASAN_REPORTS.clear();
    emit(fmt("B %d", i));
    Ctx c; c.prop = prop; c.cellinfo = CELLINFO;
    if (prop == "C14") c.want_pattern_check = true;
    IMAGE_TAINT.clear();
    run_subcell(c, cell, subs[i]);
    // An ASan report while the object was being built / saved / loaded means its later behaviour is undefined
    // (and typically depends on heap layout): for every property but C07 the sub-cell is *blocked* by that
    // memory-safety violation (reported by C07), never counted as held, and its fallout is not attributed here.
    str taint;
    if (prop != "C07") for (auto &r : ASAN_REPORTS) if (r.second == "build" || r.second == "save" || r.second == "load_generic" || r.second == "load_own") { taint = r.first; break; }
    if (taint.empty() && !IMAGE_TAINT.empty()) taint = IMAGE_TAINT;
    if (!taint.empty()) { c.fails.clear(); emit("K tainted_by_memory_error_in_build_or_load:" + taint); }
    for (auto &f : c.fails) emit("F " + failure_json(f));
    for (auto &r : ASAN_REPORTS) emit("A " + r.first + "\t" + r.second);
    emit(fmt("E %d %ld %ld", i, c.objects, c.transitions));
    PG->nsub_done = i + 1;
    if (i % 8 == 7) { ftruncate(STDERR_MEMFD, 0); lseek(STDERR_MEMFD, 0, SEEK_SET); }
  }
  emit("D");
  _exit(0);
}

static bool asan_class_fatal(const char *sig) {
  static const char *F[] = {"SEGV", "ABRT", "attempting", "stack-overflow", "FPE", "ILL", "BUS", "bad-free", "alloc-dealloc-mismatch", "double-free",
                            "requested", "allocator", "out-of-memory", "calloc-overflow", "new-delete-type-mismatch", "invalid-pointer-pair", "unknown-crash", "negative-size-param", "memcpy-param-overlap"};
  for (auto f : F) if (!strncmp(sig, f, strlen(f))) return true;
  return false;
}
struct Totals {
  long units = 0, subcells = 0, objects = 0, transitions = 0, blocked = 0, fatals = 0, asan_reports = 0, timeouts = 0, restarts = 0;
  std::map<str, long> blocked_why, notes, asan_sigs;
  std::map<str, Failure> first;       // key|preds -> first failure
  std::map<str, long> count;
  std::vector<str> samples;
};

static bool owns_op(const str &prop, const str &op) {
  bool prereq = (op == "build" || op == "save" || op == "load_generic" || op == "load_own" || op == "destroy");
  if (prop == "C07") return true;
  if (prop == "C06") return op != "build";
  if (prop == "C08") return true;
  if (prop == "C16") return op != "build" && op != "save" && op != "destroy";
  return !prereq;
}

static void add_failure(Totals &T, const Failure &f) {
  str k = f.key() + "|" + f.preds;
  T.count[k]++;
  if (!T.first.count(k)) T.first[k] = f;
}

static void run_unit(const str &prop, const Scope &sc, const Cell &cell, Totals &T, double per_sub_timeout) {
  std::vector<SubCell> subs = subcells_for(prop, sc, cell);
  CA = Cache();
  CELLINFO = fmt("pal=%s,stretch=%d,sigma=%d,L=%d,nf=%d,pre=%d,rep=%d", PALETTES[cell.pal].name, cell.stretch, cell.sigma, cell.L, sc.nf, cell.pre, cell.rep);
  if (!cell.family.empty()) CELLINFO += ",family=" + cell.family;
  int start = 0;
  T.units++;
  while (start < (int)subs.size()) {
    int fd[2]; if (pipe(fd)) { perror("pipe"); exit(2); }
    memset((void *)PG, 0, sizeof(Progress)); PG->sub = start;
    pid_t pid = fork();
    if (pid < 0) { perror("fork"); exit(2); }
    if (pid == 0) { close(fd[0]); child_main(prop, cell, subs, start, fd[1]); }
    close(fd[1]);
    str buf; bool done = false; int cur = start; bool timed_out = false;
    bool frame_pending = false; str frame_type, frame_key; size_t frame_need = 0;
    double last = now_s();
    std::vector<Failure> pend; std::vector<std::pair<str, str>> pend_asan;
    while (true) {
      struct pollfd pf = {fd[0], POLLIN, 0};
      int pr = poll(&pf, 1, 200);
      if (pr > 0) {
        char tmp[65536]; ssize_t r = read(fd[0], tmp, sizeof tmp);
        if (r <= 0) break;
        buf.append(tmp, r); last = now_s();
        size_t nl;
        while (true) {
          if (frame_pending) {
            if (buf.size() < frame_need + 1) break;
            str payload = buf.substr(0, frame_need); buf.erase(0, frame_need + 1);
            if (frame_type == "img") CA.img[frame_key] = payload;
            else if (frame_type == "obs") { std::vector<str> v = split(payload, '\n'); if (!v.empty() && v.back().empty()) v.pop_back(); CA.obs[frame_key] = v; }
            else if (frame_type == "bad") CA.obs_bad[frame_key] = true;
            else if (frame_type == "tnt") CA.img_tainted[frame_key] = payload;
            frame_pending = false;
            continue;
          }
          if ((nl = buf.find('\n')) == str::npos) break;
          str line = buf.substr(0, nl); buf.erase(0, nl + 1);
          if (line.empty()) continue;
          if (line[0] == 'C' && line.size() > 2 && line[1] == ' ') {
            auto parts = split(line, ' ');
            if (parts.size() >= 4) { frame_type = parts[1]; frame_key = unhex(parts[2]); frame_need = (size_t)atol(parts[3].c_str()); frame_pending = true; }
            continue;
          }
          char t = line[0]; str rest = line.size() > 2 ? line.substr(2) : "";
          if (t == 'B') { cur = atoi(rest.c_str()); }
          else if (t == 'F') {
            // parse our own flat json
            Failure f; auto get = [&](const char *key) { str pat = str("\"") + key + "\":\""; size_t a = rest.find(pat); if (a == str::npos) return str(); a += pat.size(); str o; while (a < rest.size() && rest[a] != '"') { if (rest[a] == '\\' && a + 1 < rest.size()) { if (rest[a + 1] == 'u') { o += (char)strtol(rest.substr(a + 2, 4).c_str(), 0, 16); a += 6; continue; } o += rest[a + 1]; a += 2; continue; } o += rest[a++]; } return o; };
            f.prop = get("prop"); f.kind = get("kind"); f.params = get("params"); f.src = get("src"); f.op = get("op"); f.sig = get("sig");
            f.preds = get("preds"); f.strings_hex = get("strings"); f.arg_hex = get("arg"); f.detail = get("detail"); f.cell = get("cell");
            add_failure(T, f);
          }
          else if (t == 'A') { T.asan_reports++; size_t tb = rest.find('\t'); str sig = rest.substr(0, tb), op = tb == str::npos ? "" : rest.substr(tb + 1);
            T.asan_sigs[sig]++;
            if (prop == "C07") { Ctx c; c.prop = prop; c.cellinfo = CELLINFO; c.set_cell(subs[cur].kind, subs[cur].p, cell.S); c.src = subs[cur].src; c.fail(op, "asan:" + sig, "AddressSanitizer report during " + op); add_failure(T, c.fails[0]); } }
          else if (t == 'E') { int i; long o, tr; sscanf(rest.c_str(), "%d %ld %ld", &i, &o, &tr); T.subcells++; T.objects += o; T.transitions += tr; }
          else if (t == 'K') { T.blocked++; T.blocked_why[fmt("%s/%s:", KNAME[subs[cur].kind], subs[cur].src.c_str()) + rest]++; }
          else if (t == 'N') { T.notes[fmt("%s:", KNAME[subs[cur].kind]) + rest]++; }
          else if (t == 'D') { done = true; }
        }
      } else if (pr == 0) {
        if (now_s() - last > per_sub_timeout) { kill(pid, SIGKILL); timed_out = true; break; }
      } else if (errno != EINTR) break;
    }
    close(fd[0]);
    int st = 0; waitpid(pid, &st, 0);
    if (done) { if (ISOLATE > 0 && start + ISOLATE < (int)subs.size()) { start += ISOLATE; continue; } break; }
    // the child died in sub-cell PG->sub
    int dead = PG->sub; if (dead < start) dead = start;
    const SubCell &sc0 = subs[dead];
    str op = PG->op, src = PG->src; if (src.empty()) src = sc0.src;
    str how;
    if (timed_out) { how = "timeout"; T.timeouts++; }
    else if (WIFSIGNALED(st)) how = fmt("fatal:signal%d", WTERMSIG(st));
    else how = fmt("fatal:exit%d", WIFEXITED(st) ? WEXITSTATUS(st) : -1);
    str sig = how;
    int nonfatal_asan = PG->asan_n;
    if (!timed_out && PG->asan_n > 0 && asan_class_fatal(PG->asan_sig[PG->asan_n - 1])) { sig = "fatal:" + str(PG->asan_sig[PG->asan_n - 1]); nonfatal_asan--; }
    T.fatals++; T.restarts++; T.subcells++;
    bool tainted = false;
    if (prop != "C07") for (int i = 0; i < nonfatal_asan; i++) { str o = PG->asan_op[i]; if (o == "build" || o == "save" || o == "load_generic" || o == "load_own") tainted = true; }
    if (tainted) { T.blocked++; T.blocked_why[fmt("%s/%s:", KNAME[sc0.kind], src.c_str()) + "tainted_by_memory_error_in_build_or_load:" + str(PG->asan_sig[0])]++; }
    else if (owns_op(prop, op)) {
      Ctx c; c.prop = prop; c.cellinfo = CELLINFO; c.set_cell(sc0.kind, sc0.p, cell.S); c.src = src;
      c.fail(op, sig, how + " during " + op + " (source " + src + ")", unhex(PG->arg));
      add_failure(T, c.fails[0]);
    } else { T.blocked++; T.blocked_why[fmt("%s/%s:", KNAME[sc0.kind], src.c_str()) + op + ":" + sig]++; }
    // non-fatal ASan reports seen before death (C07)
    if (prop == "C07") for (int i = 0; i < nonfatal_asan; i++) { Ctx c; c.prop = prop; c.cellinfo = CELLINFO; c.set_cell(sc0.kind, sc0.p, cell.S); c.src = src; c.fail(PG->asan_op[i], "asan:" + str(PG->asan_sig[i]), "AddressSanitizer report"); add_failure(T, c.fails[0]); }
    start = dead + 1;
  }
}

static str cell_sample(const Cell &cell, const Unit &u, size_t nsubs) {
  str s = "{\"strings\":[";
  for (size_t i = 0; i < cell.S.size() && i < 8; i++) { if (i) s += ","; s += "\"" + jesc(show(cell.S[i])) + "\""; }
  if (cell.S.size() > 8) s += fmt(",\"...(%zu)\"", cell.S.size());
  s += fmt("],\"palette\":\"%s\",\"stretch\":%d,\"queries\":%zu,\"subcells\":%zu}", PALETTES[u.pal].name, u.stretch, cell.Q.size(), nsubs);
  return s;
}

int main(int argc, char **argv) {
  str prop, scope_s, out, shard = "0/1", one_kind, one_params, one_strings, one_src, one_Q, one_family;
  double deadline = 1e18, subto = 20;
  bool one = false; int one_sigma = 2, one_L = 2, one_stretch = 1, one_pal = 0, one_nf = 2, one_pre = 0, one_rep = 1;
  for (int i = 1; i < argc; i++) {
    str a = argv[i]; auto nx = [&]() { return str(i + 1 < argc ? argv[++i] : ""); };
    if (a == "--prop") prop = nx(); else if (a == "--scope") scope_s = nx(); else if (a == "--out") out = nx();
    else if (a == "--shard") shard = nx(); else if (a == "--deadline") deadline = now_s() + atof(nx().c_str());
    else if (a == "--subtimeout") subto = atof(nx().c_str());
    else if (a == "--isolate") ISOLATE = atoi(nx().c_str());
    else if (a == "--one") one = true; else if (a == "--kind") one_kind = nx(); else if (a == "--params") one_params = nx();
    else if (a == "--strings") one_strings = nx(); else if (a == "--src") one_src = nx();
    else if (a == "--sigma") one_sigma = atoi(nx().c_str()); else if (a == "--L") one_L = atoi(nx().c_str());
    else if (a == "--stretch") one_stretch = atoi(nx().c_str()); else if (a == "--pal") one_pal = pal_by_name(nx()); else if (a == "--nf") one_nf = atoi(nx().c_str()); else if (a == "--pre") one_pre = atoi(nx().c_str()); else if (a == "--rep") one_rep = atoi(nx().c_str()); else if (a == "--family") one_family = nx();
  }
  __sanitizer_install_malloc_and_free_hooks(malloc_hook, free_hook);
  pg_init();
  Totals T;
  double t0 = now_s();
  bool complete = true;
  long units_total = 0;
  if (one) {
    NOFRAMES = true;
    // replay of a single sub-cell: same code path, explicit cell
    Cell cell; cell.sigma = one_sigma; cell.L = one_L; cell.stretch = one_stretch; cell.pal = one_pal;
    if (!one_strings.empty() && one_strings[0] == '@') { std::ifstream sf(one_strings.substr(1)); std::stringstream ss; ss << sf.rdbuf(); one_strings = ss.str(); while (!one_strings.empty() && (one_strings.back() == '\n' || one_strings.back() == ' ')) one_strings.pop_back(); }
    for (auto &h : split(one_strings, ',')) if (!h.empty()) cell.S.push_back(unhex(h));
    std::sort(cell.S.begin(), cell.S.end(), ult);
    cell.Q = query_universe(PALETTES[one_pal], one_sigma, one_L, one_stretch, one_nf);
    shape_queries(cell, one_pal, one_pre, one_rep);
    if (!one_family.empty()) { cell.family = one_family; cell.Q = family_queries(cell.S); }
    Scope sc; sc.kinds = {kind_by_name(one_kind)}; sc.pd = "one";
    // run exactly that sub-cell through run_unit machinery
    std::vector<SubCell> subs = {{kind_by_name(one_kind), Params::parse(one_params), one_src}};
    // inline variant of run_unit for a fixed list
    struct Hack { static std::vector<SubCell> &list() { static std::vector<SubCell> l; return l; } };
    Hack::list() = subs;
    int fd[2]; pipe(fd); memset((void *)PG, 0, sizeof(Progress));
    pid_t pid = fork();
    if (pid == 0) { close(fd[0]); child_main(prop, cell, subs, 0, fd[1]); }
    close(fd[1]);
    str blob; char tmp[65536]; ssize_t r; double last = now_s(); bool to = false;
    while (true) { struct pollfd pf = {fd[0], POLLIN, 0}; int pr = poll(&pf, 1, 200); if (pr > 0) { r = read(fd[0], tmp, sizeof tmp); if (r <= 0) break; blob.append(tmp, r); last = now_s(); } else if (now_s() - last > subto * 10) { kill(pid, SIGKILL); to = true; break; } }
    int st = 0; waitpid(pid, &st, 0);
    bool done = blob.find("\nD\n") != str::npos || blob.compare(0, 2, "D\n") == 0;
    for (auto &line : split(blob, '\n')) { if (line.size() > 2 && (line[0] == 'F' || line[0] == 'A' || line[0] == 'K' || line[0] == 'N')) printf("%s\n", line.c_str()); }
    if (!done) {
      str how = to ? "timeout" : (WIFSIGNALED(st) ? fmt("fatal:signal%d", WTERMSIG(st)) : fmt("fatal:exit%d", WEXITSTATUS(st)));
      str sig = how; int nonfatal_asan = PG->asan_n;
      if (!to && PG->asan_n > 0 && asan_class_fatal(PG->asan_sig[PG->asan_n - 1])) { sig = "fatal:" + str(PG->asan_sig[PG->asan_n - 1]); nonfatal_asan--; }
      bool tainted = false;
      if (prop != "C07") for (int i = 0; i < nonfatal_asan; i++) { str o = PG->asan_op[i]; if (o == "build" || o == "save" || o == "load_generic" || o == "load_own") tainted = true; }
      if (tainted) printf("K tainted\n");
      else printf("X {\"op\":\"%s\",\"src\":\"%s\",\"sig\":\"%s\",\"arg\":\"%s\",\"owned\":%d}\n", PG->op, PG->src, jesc(sig).c_str(), PG->arg, owns_op(prop, PG->op) ? 1 : 0);
      for (int i = 0; i < nonfatal_asan; i++) printf("A %s\t%s\n", PG->asan_sig[i], PG->asan_op[i]);
    }
    return 0;
  }
  Scope sc = Scope::parse(scope_s);
  strs U; scope_universe(sc, U);
  std::vector<setmask> sets = enum_sets(sc, U);
  int si = atoi(shard.c_str()), sn = atoi(shard.substr(shard.find('/') + 1).c_str());
  long idx = 0;
  std::set<str> distinct_cells;
  if (!sc.family.empty()) { sets.clear(); for (int d : sc.depths) sets.push_back((setmask)d); sc.pals = {0}; sc.stretches = {1}; sc.pres = {0}; }
  for (setmask mask : sets) for (int pal : sc.pals) for (int st : sc.stretches) for (int pre : sc.pres) {
    long my = idx++; units_total++;
    if (my % sn != si) continue;
    if (now_s() > deadline) { complete = false; continue; }
    Unit u = {mask, pal, st, pre};
    Cell cell = sc.family.empty() ? make_cell(sc, U, u) : make_family_cell(sc, (int)mask);
    if (T.samples.size() < 3 || (T.units % 997 == 0 && T.samples.size() < 6)) T.samples.push_back(cell_sample(cell, u, subcells_for(prop, sc, cell).size()));
    run_unit(prop, sc, cell, T, subto);
  }
  FILE *f = out.empty() ? stdout : fopen(out.c_str(), "w");
  fprintf(f, "{\"prop\":\"%s\",\"scope\":\"%s\",\"shard\":\"%s\",\"complete\":%s,\"units_total\":%ld,\"units\":%ld,\"subcells\":%ld,\"objects\":%ld,"
             "\"transitions\":%ld,\"blocked\":%ld,\"fatals\":%ld,\"timeouts\":%ld,\"asan_reports\":%ld,\"wall_s\":%.2f,\n",
          prop.c_str(), sc.s.c_str(), shard.c_str(), complete ? "true" : "false", units_total, T.units, T.subcells, T.objects, T.transitions,
          T.blocked, T.fatals, T.timeouts, T.asan_reports, now_s() - t0);
  fprintf(f, "\"universe\":%zu,\"sets\":%zu,\n\"blocked_why\":{", U.size(), sets.size());
  { bool first = true; for (auto &kv : T.blocked_why) { fprintf(f, "%s\"%s\":%ld", first ? "" : ",", jesc(kv.first).c_str(), kv.second); first = false; } }
  fprintf(f, "},\n\"notes\":{");
  { bool first = true; for (auto &kv : T.notes) { fprintf(f, "%s\"%s\":%ld", first ? "" : ",", jesc(kv.first).c_str(), kv.second); first = false; } }
  fprintf(f, "},\n\"asan_sigs\":{");
  { bool first = true; for (auto &kv : T.asan_sigs) { fprintf(f, "%s\"%s\":%ld", first ? "" : ",", jesc(kv.first).c_str(), kv.second); first = false; } }
  fprintf(f, "},\n\"samples\":[");
  for (size_t i = 0; i < T.samples.size(); i++) fprintf(f, "%s%s", i ? "," : "", T.samples[i].c_str());
  fprintf(f, "],\n\"failures\":[\n");
  { bool first = true; for (auto &kv : T.first) { str j = failure_json(kv.second); j.pop_back(); fprintf(f, "%s%s,\"count\":%ld}", first ? "" : ",\n", j.c_str(), T.count[kv.first]); first = false; } }
  fprintf(f, "\n]}\n");
  if (f != stdout) fclose(f);
  return 0;
}
