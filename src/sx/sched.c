/* sched.c -- controlled cooperative scheduler + pthread interposition (DESIGN.md 4.3).
 * Compiled WITHOUT sanitizers and in C, so nothing here is visible to TSan/ASan and no inline/COMDAT
 * code is shared with instrumented translation units.  One baton: exactly one registered thread runs;
 * every hooked synchronisation operation publishes the pending operation and asks schedule() who goes on.
 * The real pthread operation is performed (through the next definition in lookup order, i.e. TSan's
 * interceptor when present, else glibc) at the moment the scheduler grants it, so the sanitizer sees
 * exactly the program's own synchronisation and none of the hand-off. */
#define _GNU_SOURCE
#include "sxsched.h"
#include <dlfcn.h>
#include <errno.h>
#include <linux/futex.h>
#include <pthread.h>
#include <stdio.h>
#include <stdlib.h>
#include <string.h>
#include <sys/syscall.h>
#include <unistd.h>

sx_shared_t *sx_sh = 0;
uint64_t (*sx_driver_hash)(void) = 0;

enum { ST_READY = 0, ST_CVWAIT = 1 };
typedef struct {
  int used, finished, status;
  int go;
  int op, obj, cv;
  pthread_t real;
  void *(*fn)(void *);
  void *arg;
} thr_t;

static thr_t T[SX_MAXT];
static int nthr = 0;
static volatile int cur = -1;
static volatile int active = 0;
static __thread int my = -1;
static void *objaddr[SX_MAXOBJ];
static int nobj = 0;
static int mtx_owner[SX_MAXOBJ];
static int unlock_points = 0;
/* Happens-before hashes (DESIGN.md 12.1): hb_t[t] identifies the complete causal history of thread t -- its own operations in
 * program order plus, at every acquire (lock, re-acquire after a wait, wake-up, join, start), the history of the releasing
 * thread at its release.  For data-race-free code everything a thread can read is determined by that history, so two
 * executions that reach the same vector of thread histories + the same scheduler state have the same futures. */
static uint64_t hb_t[SX_MAXT];
static uint64_t hb_o[SX_MAXOBJ];

static int (*r_mutex_lock)(pthread_mutex_t *);
static int (*r_mutex_trylock)(pthread_mutex_t *);
static int (*r_mutex_unlock)(pthread_mutex_t *);
static int (*r_create)(pthread_t *, const pthread_attr_t *, void *(*)(void *), void *);
static int (*r_join)(pthread_t, void **);
static int (*r_cond_wait)(pthread_cond_t *, pthread_mutex_t *);
static int (*r_cond_broadcast)(pthread_cond_t *);
static int (*r_cond_signal)(pthread_cond_t *);

static void resolve(void) {
  if (r_mutex_lock) return;
  r_mutex_lock = dlsym(RTLD_NEXT, "pthread_mutex_lock");
  r_mutex_trylock = dlsym(RTLD_NEXT, "pthread_mutex_trylock");
  r_mutex_unlock = dlsym(RTLD_NEXT, "pthread_mutex_unlock");
  r_create = dlsym(RTLD_NEXT, "pthread_create");
  r_join = dlsym(RTLD_NEXT, "pthread_join");
  r_cond_wait = dlsym(RTLD_NEXT, "pthread_cond_wait");
  r_cond_broadcast = dlsym(RTLD_NEXT, "pthread_cond_broadcast");
  r_cond_signal = dlsym(RTLD_NEXT, "pthread_cond_signal");
}

static void fwait(int *w) {
  while (__atomic_load_n(w, __ATOMIC_ACQUIRE) == 0) syscall(SYS_futex, w, FUTEX_WAIT, 0, 0, 0, 0);
  __atomic_store_n(w, 0, __ATOMIC_RELEASE);
}
static void fwake(int *w) {
  __atomic_store_n(w, 1, __ATOMIC_RELEASE);
  syscall(SYS_futex, w, FUTEX_WAKE, 1, 0, 0, 0);
}

const char *sx_opname(int op) {
  static const char *N[] = {"none", "start", "lock", "unlock", "cvwait", "cvreacq", "broadcast", "signal", "create", "join", "exit", "yield", "trylock"};
  return (op >= 0 && op < 13) ? N[op] : "?";
}
int sx_active(void) { return active && my >= 0 && !T[my].finished; }

static int obj_id(void *p) {
  int i;
  for (i = 0; i < nobj; i++) if (objaddr[i] == p) return i;
  if (nobj >= SX_MAXOBJ) { snprintf(sx_sh->detail, sizeof sx_sh->detail, "too many sync objects"); sx_sh->outcome = SX_OUT_TOOLONG; _exit(40); }
  objaddr[nobj] = p; mtx_owner[nobj] = -1; hb_o[nobj] = 0;
  return nobj++;
}

static int enabled(int t) {
  if (!T[t].used || T[t].finished) return 0;
  if (T[t].status == ST_CVWAIT) return 0;
  switch (T[t].op) {
  case SX_OP_LOCK: case SX_OP_CVREACQ: return mtx_owner[T[t].obj] == -1;
  case SX_OP_JOIN: return T[T[t].obj].finished;
  default: return 1;
  }
}

static uint64_t mix(uint64_t h, uint64_t v) { h ^= v + 0x9e3779b97f4a7c15ULL + (h << 6) + (h >> 2); return h * 0x100000001b3ULL; }
static void hb_own(int t, int op, int obj) { hb_t[t] = mix(hb_t[t], ((uint64_t)op << 16) | (uint64_t)(obj & 0xffff)); }
static void hb_acq(int t, uint64_t from) { hb_t[t] = mix(hb_t[t], from ^ 0x5bd1e995u); }
static uint64_t hb_state_hash(void) {
  uint64_t h = 0x243f6a8885a308d3ULL; int t, i;
  for (t = 0; t < nthr; t++) { h = mix(h, hb_t[t]); h = mix(h, (uint64_t)T[t].finished | (T[t].status << 1) | (T[t].op << 4) | ((uint64_t)T[t].obj << 12) | ((uint64_t)(T[t].cv & 0xff) << 24)); }
  for (i = 0; i < nobj; i++) { h = mix(h, (uint64_t)(mtx_owner[i] + 2)); h = mix(h, hb_o[i]); }
  if (sx_driver_hash) h = mix(h, sx_driver_hash());
  return h;
}
static uint64_t state_hash(void) {
  uint64_t h = 1469598103934665603ULL; int t, i;
  for (t = 0; t < nthr; t++) h = mix(h, (uint64_t)T[t].finished | (T[t].status << 1) | (T[t].op << 4) | ((uint64_t)T[t].obj << 12) | ((uint64_t)(T[t].cv & 0xff) << 24));
  for (i = 0; i < nobj; i++) h = mix(h, (uint64_t)(mtx_owner[i] + 2));
  h = mix(h, (uint64_t)cur);
  if (sx_driver_hash) h = mix(h, sx_driver_hash());
  return h;
}

/* Decide who runs next.  `me` is the calling thread (its pending op is published); if `me_leaves` the caller
 * does not wait for the baton afterwards (thread exit). */
static void schedule(int me, int me_leaves) {
  uint8_t en[SX_MAXT]; int n = 0, t, idx = 0, unfinished = 0;
  int me_en = enabled(me);
  if (me_en) en[n++] = (uint8_t)me;
  for (t = 0; t < nthr; t++) { if (T[t].used && !T[t].finished) unfinished++; if (t != me && enabled(t)) en[n++] = (uint8_t)t; }
  if (n == 0) {
    if (unfinished == 0) return;          /* everything finished */
    int len = snprintf(sx_sh->detail, sizeof sx_sh->detail, "deadlock: no enabled thread;");
    for (t = 0; t < nthr && len < 480; t++) if (T[t].used && !T[t].finished)
      len += snprintf(sx_sh->detail + len, sizeof sx_sh->detail - len, " T%d:%s%s(obj%d)", t, T[t].status == ST_CVWAIT ? "waiting-on-cv-before-" : "", sx_opname(T[t].op), T[t].status == ST_CVWAIT ? T[t].cv : T[t].obj);
    sx_sh->outcome = SX_OUT_DEADLOCK;
    _exit(41);
  }
  if (n > 1) {
    int k = sx_sh->npoints;
    if (k >= SX_MAXPTS) { snprintf(sx_sh->detail, sizeof sx_sh->detail, "more than %d choice points", SX_MAXPTS); sx_sh->outcome = SX_OUT_TOOLONG; _exit(42); }
    if (k < sx_sh->nprefix) {
      idx = sx_sh->prefix[k];
      if (idx >= n) { snprintf(sx_sh->detail, sizeof sx_sh->detail, "replay diverged at point %d: choice %d of %d", k, idx, n); sx_sh->outcome = SX_OUT_DIVERGED; _exit(43); }
    }
    sx_point_t *p = &sx_sh->pts[k];
    p->running = (uint8_t)me; p->running_enabled = (uint8_t)me_en; p->nenabled = (uint8_t)n;
    memcpy(p->enabled, en, n); p->chosen = (uint8_t)idx; p->op = (uint8_t)T[en[idx]].op; p->obj = (uint8_t)T[en[idx]].obj;
    p->state_hash = state_hash();
    p->hb_hash = hb_state_hash();
    sx_sh->npoints = k + 1;
  }
  int next = en[idx];
  cur = next;
  if (next != me) { fwake(&T[next].go); if (!me_leaves) fwait(&T[me].go); }
}

static void point(int op, int obj) {
  int me = my;
  T[me].op = op; T[me].obj = obj;
  schedule(me, 0);
}

void sx_begin(void) {
  resolve();
  memset(T, 0, sizeof T); nthr = 1; nobj = 0;
  T[0].used = 1; T[0].op = SX_OP_NONE; T[0].real = pthread_self();
  my = 0; cur = 0;
  memset(hb_t, 0, sizeof hb_t); memset(hb_o, 0, sizeof hb_o); hb_t[0] = 1;
  unlock_points = getenv("SX_UNLOCK_POINTS") ? atoi(getenv("SX_UNLOCK_POINTS")) : 0;
  sx_sh->npoints = 0; sx_sh->outcome = SX_OUT_RUNNING;
  active = 1;
}
void sx_end(void) { active = 0; sx_sh->nthreads = nthr; }

/* ------------------------------------------------------------------ interposed pthread entry points */
int pthread_mutex_lock(pthread_mutex_t *m) {
  resolve();
  if (!sx_active()) return r_mutex_lock(m);
  int o = obj_id(m);
  point(SX_OP_LOCK, o);
  mtx_owner[o] = my;
  hb_own(my, SX_OP_LOCK, o); hb_acq(my, hb_o[o]);
  return r_mutex_lock(m);
}
int pthread_mutex_trylock(pthread_mutex_t *m) {
  resolve();
  if (!sx_active()) return r_mutex_trylock(m);
  int o = obj_id(m);
  point(SX_OP_TRYLOCK, o);
  if (mtx_owner[o] != -1) { hb_own(my, SX_OP_TRYLOCK, o + 0x4000); hb_acq(my, hb_t[mtx_owner[o]]); return EBUSY; }
  mtx_owner[o] = my;
  hb_own(my, SX_OP_TRYLOCK, o); hb_acq(my, hb_o[o]);
  return r_mutex_trylock(m);
}
int pthread_mutex_unlock(pthread_mutex_t *m) {
  resolve();
  if (!sx_active()) return r_mutex_unlock(m);
  int o = obj_id(m);
  if (unlock_points) point(SX_OP_UNLOCK, o);
  mtx_owner[o] = -1;
  hb_own(my, SX_OP_UNLOCK, o); hb_o[o] = hb_t[my];
  return r_mutex_unlock(m);
}
int pthread_cond_wait(pthread_cond_t *c, pthread_mutex_t *m) {
  resolve();
  if (!sx_active()) return r_cond_wait(c, m);
  int co = obj_id(c), mo = obj_id(m), me = my;
  point(SX_OP_CVWAIT, co);                 /* still holding m: the window between predicate and block */
  r_mutex_unlock(m); mtx_owner[mo] = -1;   /* atomically: release + enqueue as waiter */
  hb_own(me, SX_OP_CVWAIT, co); hb_own(me, SX_OP_UNLOCK, mo); hb_o[mo] = hb_t[me];
  T[me].status = ST_CVWAIT; T[me].cv = co; T[me].op = SX_OP_CVREACQ; T[me].obj = mo;
  schedule(me, 0);                         /* not enabled until notified and m is free */
  mtx_owner[mo] = me;
  hb_own(me, SX_OP_CVREACQ, mo); hb_acq(me, hb_o[mo]);
  return r_mutex_lock(m);
}
int pthread_cond_broadcast(pthread_cond_t *c) {
  resolve();
  if (!sx_active()) return r_cond_broadcast(c);
  int co = obj_id(c), t;
  point(SX_OP_BROADCAST, co);
  hb_own(my, SX_OP_BROADCAST, co);
  for (t = 0; t < nthr; t++) if (T[t].used && !T[t].finished && T[t].status == ST_CVWAIT && T[t].cv == co) { T[t].status = ST_READY; hb_acq(t, hb_t[my]); }
  return 0;
}
int pthread_cond_signal(pthread_cond_t *c) {
  resolve();
  if (!sx_active()) return r_cond_signal(c);
  int co = obj_id(c), t;
  point(SX_OP_SIGNAL, co);
  hb_own(my, SX_OP_SIGNAL, co);
  for (t = 0; t < nthr; t++) if (T[t].used && !T[t].finished && T[t].status == ST_CVWAIT && T[t].cv == co) { T[t].status = ST_READY; hb_acq(t, hb_t[my]); break; }
  return 0;
}
static void *trampoline(void *a) {
  int id = (int)(long)a;
  my = id;
  fwait(&T[id].go);                        /* granted START */
  void *r = T[id].fn(T[id].arg);
  /* thread exit: a visible operation (others may be joining) */
  T[id].op = SX_OP_EXIT; T[id].finished = 1;
  hb_own(id, SX_OP_EXIT, 0);
  if (active) schedule(id, 1);
  return r;
}
int pthread_create(pthread_t *th, const pthread_attr_t *attr, void *(*fn)(void *), void *arg) {
  resolve();
  if (!sx_active()) return r_create(th, attr, fn, arg);
  if (nthr >= SX_MAXT) { snprintf(sx_sh->detail, sizeof sx_sh->detail, "too many threads"); sx_sh->outcome = SX_OUT_TOOLONG; _exit(44); }
  int id = nthr;
  memset(&T[id], 0, sizeof T[id]);
  T[id].used = 1; T[id].fn = fn; T[id].arg = arg; T[id].op = SX_OP_START;
  nthr++;
  hb_own(my, SX_OP_CREATE, id); hb_t[id] = mix(hb_t[my], 0xc0ffee);
  int rc = r_create(th, attr, trampoline, (void *)(long)id);
  T[id].real = *th;
  point(SX_OP_CREATE, id);                 /* the new thread may run first */
  return rc;
}
int pthread_join(pthread_t th, void **ret) {
  resolve();
  if (!sx_active()) return r_join(th, ret);
  int t, id = -1;
  for (t = 0; t < nthr; t++) if (T[t].used && pthread_equal(T[t].real, th)) id = t;
  if (id >= 0) { point(SX_OP_JOIN, id); hb_own(my, SX_OP_JOIN, id); hb_acq(my, hb_t[id]); }
  return r_join(th, ret);
}
