/* sched.h -- controlled cooperative scheduler over interposed pthread operations (DESIGN.md 4.3).
 * C-style, fixed arrays; this translation unit is compiled WITHOUT sanitizers. */
#ifndef SX_SCHED_H
#define SX_SCHED_H
#include <stddef.h>
#include <stdint.h>
#ifdef __cplusplus
extern "C" {
#endif

#define SX_MAXT 12
#define SX_MAXPTS 4096
#define SX_MAXOBJ 64

enum { SX_OP_NONE = 0, SX_OP_START, SX_OP_LOCK, SX_OP_UNLOCK, SX_OP_CVWAIT, SX_OP_CVREACQ, SX_OP_BROADCAST, SX_OP_SIGNAL,
       SX_OP_CREATE, SX_OP_JOIN, SX_OP_EXIT, SX_OP_YIELD, SX_OP_TRYLOCK };

enum { SX_OUT_RUNNING = 0, SX_OUT_OK = 1, SX_OUT_DEADLOCK = 2, SX_OUT_DIVERGED = 3, SX_OUT_TOOLONG = 4, SX_OUT_ORACLE = 5, SX_OUT_RACE = 6 };

typedef struct {
  uint8_t running;        /* thread that was running when the point was reached */
  uint8_t running_enabled;/* was it still enabled (switching away = preemption) */
  uint8_t nenabled;
  uint8_t enabled[SX_MAXT];   /* canonical order: running thread first if enabled, then ascending ids */
  uint8_t chosen;         /* index into enabled[] */
  uint8_t op, obj;        /* pending op/object of the chosen thread */
  uint64_t state_hash;    /* abstract state at this choice point */
  uint64_t hb_hash;       /* happens-before state: thread histories + scheduler state (sound key for state matching) */
} sx_point_t;

typedef struct {
  /* input */
  int nprefix;
  uint8_t prefix[SX_MAXPTS];
  /* output */
  volatile int outcome;
  volatile int npoints;
  sx_point_t pts[SX_MAXPTS];
  volatile int nthreads;
  char detail[512];
  volatile int races;
  char race_text[1024];
  /* driver observations */
  volatile long obs[32];
  unsigned char blob[1 << 16];
  volatile int bloblen;
} sx_shared_t;

extern sx_shared_t *sx_sh;            /* shared with the exploring parent (mmap MAP_SHARED) */
void sx_begin(void);                  /* activate the scheduler on the calling (main) thread */
void sx_end(void);                    /* deactivate (all other threads must be finished) */
int sx_active(void);
/* extra state the driver wants folded into the state hash (read at every choice point) */
extern uint64_t (*sx_driver_hash)(void);
/* describe thread t at the last point (for messages) */
const char *sx_opname(int op);

#ifdef __cplusplus
}
#endif
#endif
