// sx.cpp -- SX: stateless exploration of thread interleavings of the REAL WorkerPool and of the real
// block-parallel constructor under the controlled scheduler (src/sx/sched.c).
//   sx --driver D1 --workers W --tasks T --bound B [--prune] [--deadline s] --out file
//   sx --driver D1 --workers W --tasks T --replay 0,1,0,2     (replays one schedule twice and prints it)
// Exploration: BFS over preemption cost (iterative context bounding, every bound run to completion before
// the next), each execution in a forked child; a schedule is a sequence of indices into the canonical
// enabled list at each choice point (running thread first).
#include "sx/sxsched.h"
#include <algorithm>
#include <cstdio>
#include <cstdlib>
#include <cstring>
#include <deque>
#include <map>
#include <set>
#include <sstream>
#include <string>
#include <sys/mman.h>
#include <sys/time.h>
#include <sys/wait.h>
#include <unistd.h>
#include <vector>
#include <signal.h>
#include <poll.h>
#include <fcntl.h>
#include <cstddef>

#include "parallel/Worker.hpp"
#include "StringDictionary.h"
#include "StringDictionaryHASHRPDACBlocks.h"
#include "iterators/IteratorDictStringPlain.h"

typedef std::string str;
static double now_s() { struct timeval tv; gettimeofday(&tv, 0); return tv.tv_sec + tv.tv_usec * 1e-6; }

#if defined(__SANITIZE_THREAD__)
#define SX_TSAN 1
extern "C" const char *__tsan_default_options() { return "halt_on_error=0:report_bugs=1:exitcode=0:second_deadlock_stack=0:history_size=2:report_signal_unsafe=0:report_thread_leaks=0:symbolize=0:print_summary=0"; }
// called by the TSan runtime for every report; returning true suppresses printing
extern "C" bool __tsan_on_report(void *rep);
extern "C" int __tsan_get_report_data(void *report, const char **description, int *count, int *stack_count, int *mop_count, int *loc_count, int *mutex_count, int *thread_count, int *unique_tid_count, void **sleep_trace, unsigned long trace_size);
extern "C" int __tsan_get_report_mop(void *report, unsigned long idx, int *tid, void **addr, int *size, int *write, int *atomic, void **trace, unsigned long trace_size);
#else
#define SX_TSAN 0
#endif

// ------------------------------------------------------------------ driver-visible oracle state
static int NT = 0;
static volatile int task_runs[16];
static volatile int task_inflight[16];
static volatile int reentered = 0;
static void run_task(int i) {
  if (task_inflight[i]) reentered = 1;
  task_inflight[i] = 1;
  task_runs[i]++;
  task_inflight[i] = 0;
}
__attribute__((no_sanitize("thread"))) static uint64_t drv_hash() {
  uint64_t h = 7;
  for (int i = 0; i < NT; i++) h = h * 31 + task_runs[i];
  return h;
}
static void oracle_fail(const char *msg) {
  snprintf(sx_sh->detail, sizeof sx_sh->detail, "%s", msg);
  sx_sh->outcome = SX_OUT_ORACLE;
}
static void check_tasks() {
  char b[256];
  for (int i = 0; i < NT; i++) if (task_runs[i] != 1) { snprintf(b, sizeof b, "task %d ran %d times (expected exactly once)", i, task_runs[i]); oracle_fail(b); return; }
  if (reentered) oracle_fail("a task ran concurrently with itself");
}

// D1: add T tasks, stop, wait
static void D1(int W, int T) {
  WorkerPool pool(W);
  for (int i = 0; i < T; i++) pool.add_task([i]() { run_task(i); });
  pool.stop_all_workers();
  pool.wait_workers();
}
// D2: block-constructor pattern: tasks report completion on an external condition; producer waits for all, then stops
static void D2(int W, int T) {
  WorkerPool pool(W);
  std::mutex m; std::condition_variable cv; int done = 0;
  for (int i = 0; i < T; i++) pool.add_task([i, &m, &cv, &done]() { run_task(i); { std::lock_guard<std::mutex> lg(m); done++; } cv.notify_all(); });
  { std::unique_lock<std::mutex> ul(m); cv.wait(ul, [&]() { return done == T; }); }
  pool.stop_all_workers();
  pool.wait_workers();
}
// D3: the last finishing task stops the pool itself (pattern of the pinned test)
static void D3(int W, int T) {
  WorkerPool pool(W);
  std::mutex m; int done = 0;
  for (int i = 0; i < T; i++) pool.add_task([i, &m, &done, &pool, T]() { run_task(i); std::lock_guard<std::mutex> lg(m); done++; if (done == T) pool.stop_all_workers(); });
  if (T == 0) pool.stop_all_workers();
  pool.wait_workers();
}
// D4: stop with an empty queue while the workers are starting up, tasks added before the workers exist is impossible
//     (pool creates them), so: stop first, then wait -- at every point of the workers' start-up
static void D4(int W, int T) {
  WorkerPool pool(W);
  pool.stop_all_workers();
  pool.wait_workers();
  (void)T;
}
// D5: tasks that enqueue further tasks (task i < T/2 enqueues task i + ceil(T/2)); then completion as in D2
static void D5(int W, int T) {
  WorkerPool pool(W);
  std::mutex m; std::condition_variable cv; int done = 0;
  int half = (T + 1) / 2;
  for (int i = 0; i < half; i++) pool.add_task([i, half, T, &pool, &m, &cv, &done]() {
    run_task(i);
    int j = i + half;
    if (j < T) pool.add_task([j, &m, &cv, &done]() { run_task(j); { std::lock_guard<std::mutex> lg(m); done++; } cv.notify_all(); });
    { std::lock_guard<std::mutex> lg(m); done++; } cv.notify_all(); });
  { std::unique_lock<std::mutex> ul(m); cv.wait(ul, [&]() { return done == T; }); }
  pool.stop_all_workers();
  pool.wait_workers();
}

// DR: self-test of the race oracle -- tasks update a shared counter WITHOUT a lock (not part of any property check)
static volatile int racy_shared = 0;
static void DR(int W, int T) {
  WorkerPool pool(W);
  for (int i = 0; i < T; i++) pool.add_task([i]() { run_task(i); racy_shared = racy_shared + 1; });
  pool.stop_all_workers();
  pool.wait_workers();
}

// B: the real block-parallel constructor.  --tasks selects the input/cut pair, --workers the thread count.
struct BInput { const char *text; size_t len; unsigned long cut; int blocks; };
static std::vector<std::string> B_strings(int variant) {
  // small inputs whose blocks exercise Re-Pair rules, the DAC and the hash
  if (variant == 1) return {"abab", "ababab", "abcabc", "bcbc", "bcbcbc", "cabcab"};
  if (variant == 2) return {"aa", "aaaa", "ab", "abab", "ba", "baba", "bb", "bbbb", "cc"};
  return {"abcabc", "abcabd", "bcdbcd", "bcdbce"};
}
static int B_EXPECTED = 0;    // number of blocks the chosen cut size must give
static StringDictionary *B_build(int variant, int blocks, int threads) {
  // variant = string set (variant % 3) + 3 * cut selector: among all cut sizes that give `blocks` blocks take the
  // smallest (0), the largest (1: shortest last block, total < blocks * cut) or the middle one (2)
  std::vector<std::string> S = B_strings(variant % 3);
  int cutsel = variant / 3;
  std::string t; for (auto &s : S) { t += s; t += '\0'; }
  unsigned long total = t.size(), cut = total;
  std::vector<unsigned long> good;
  for (unsigned long c = 0; c <= total; c++) {
    int nb = 0; unsigned long acc = 0; size_t k = 0;
    for (auto &s : S) { acc += s.size() + 1; k++; if (k == S.size() || acc > c) { nb++; acc = 0; } }
    if (nb == blocks) good.push_back(c);
  }
  if (!good.empty()) cut = cutsel == 0 ? good.front() : cutsel == 1 ? good.back() : good[good.size() / 2];
  // (some string sets cannot be split into `blocks` blocks at all, e.g. four equal strings into three: the whole input is one block then)
  { int nb = 0; unsigned long acc = 0; size_t k = 0; for (auto &s : S) { acc += s.size() + 1; k++; if (k == S.size() || acc > cut) { nb++; acc = 0; } } B_EXPECTED = nb; }
  uchar *buf = new uchar[t.size() + 2]; memcpy(buf, t.data(), t.size()); buf[t.size()] = 0; buf[t.size() + 1] = 0;
  return new StringDictionaryHASHRPDACBlocks(new IteratorDictStringPlain(buf, t.size()), t.size(), 10, cut, threads);
}
static std::string B_image(StringDictionary *d) { std::ostringstream o; d->save(o); return o.str(); }

static int DRV_VARIANT = 0;
static void DB(int W, int T) {   // T = number of blocks
  StringDictionaryHASHRPDACBlocks *d = (StringDictionaryHASHRPDACBlocks *)B_build(DRV_VARIANT, T, W);
  // the constructor has returned: every block must be complete
  char b[256];
  sx_sh->obs[0] = (long)d->parts.size();
  if ((int)d->parts.size() != B_EXPECTED) { snprintf(b, sizeof b, "%zu blocks built, expected %d", d->parts.size(), B_EXPECTED); oracle_fail(b); }
  for (size_t i = 0; i < d->parts.size(); i++) if (!d->parts[i]) { snprintf(b, sizeof b, "block %zu is null after the constructor returned", i); oracle_fail(b); break; }
  if (sx_sh->outcome != SX_OUT_ORACLE) {
    sx_end();     // saving is sequential code; no need to schedule it
    std::string img = B_image(d);
    sx_sh->bloblen = (int)std::min(img.size(), sizeof sx_sh->blob);
    memcpy(sx_sh->blob, img.data(), sx_sh->bloblen);
    uint64_t h = 1469598103934665603ULL; for (unsigned char c : img) { h ^= c; h *= 1099511628211ULL; }
    sx_sh->obs[1] = (long)h; sx_sh->obs[2] = (long)img.size();
  }
  delete d;
}

typedef void (*drv_t)(int, int);
static drv_t driver_by_name(const str &n) {
  if (n == "D1") return D1; if (n == "D2") return D2; if (n == "D3") return D3; if (n == "D4") return D4; if (n == "D5") return D5; if (n == "B") return DB; if (n == "DR") return DR;
  return 0;
}

#if SX_TSAN
extern "C" bool __tsan_on_report(void *rep) {
  const char *desc = 0; int count, sc, mc, lc, muc, tc, utc; void *sleep[1];
  __tsan_get_report_data(rep, &desc, &count, &sc, &mc, &lc, &muc, &tc, &utc, sleep, 1);
  if (sx_sh) {
    int n = sx_sh->races++;
    if (n == 0) {
      int len = snprintf(sx_sh->race_text, sizeof sx_sh->race_text, "%s;", desc ? desc : "?");
      for (int i = 0; i < mc && i < 2; i++) { int tid, size, wr, at; void *addr; void *tr[6] = {0, 0, 0, 0, 0, 0};
        __tsan_get_report_mop(rep, i, &tid, &addr, &size, &wr, &at, tr, 6);
        len += snprintf(sx_sh->race_text + len, sizeof sx_sh->race_text - len, " %s size %d by T%d pcs", wr ? "write" : "read", size, tid);
        for (int k = 0; k < 6 && tr[k]; k++) { extern char __executable_start; long off = (char *)tr[k] - &__executable_start; if (off > 0 && off < (1L << 30)) len += snprintf(sx_sh->race_text + len, sizeof sx_sh->race_text - len, " +0x%lx", off); else len += snprintf(sx_sh->race_text + len, sizeof sx_sh->race_text - len, " %p", tr[k]); } len += snprintf(sx_sh->race_text + len, sizeof sx_sh->race_text - len, ";"); }
    }
  }
  return true;
}
#endif

// ------------------------------------------------------------------ one execution
struct Exec { int outcome; int npoints; std::vector<sx_point_t> pts; str detail; long obs1, obs2; int races; str race_text; bool hang; };

static drv_t DRV; static int W_ = 1, T_ = 1;
static long REF_HASH = 0, REF_LEN = 0; static bool HAVE_REF = false;

static Exec run_once(const std::vector<uint8_t> &prefix, double timeout_s) {
  memset((void *)sx_sh, 0, offsetof(sx_shared_t, blob));
  sx_sh->nprefix = (int)prefix.size();
  if (!prefix.empty()) memcpy(sx_sh->prefix, prefix.data(), prefix.size());
  pid_t pid = fork();
  if (pid == 0) {
    int dn = open("/dev/null", O_WRONLY); dup2(dn, 1); if (!getenv("SX_STDERR")) dup2(dn, 2);
    NT = (DRV == DB) ? 0 : T_;
    sx_driver_hash = drv_hash;
    sx_begin();
    DRV(W_, T_);
    if (sx_active()) sx_end();
    if (sx_sh->outcome == SX_OUT_RUNNING) { if (DRV != DB) check_tasks(); }
    if (sx_sh->outcome == SX_OUT_RUNNING) sx_sh->outcome = SX_OUT_OK;
    _exit(0);
  }
  Exec e; e.hang = false;
  double t0 = now_s(); int st = 0;
  while (true) {
    pid_t r = waitpid(pid, &st, WNOHANG);
    if (r == pid) break;
    if (now_s() - t0 > timeout_s) { kill(pid, SIGKILL); waitpid(pid, &st, 0); e.hang = true; break; }
    usleep(50);
  }
  e.outcome = sx_sh->outcome; e.npoints = sx_sh->npoints;
  e.pts.assign(sx_sh->pts, sx_sh->pts + std::min(e.npoints, SX_MAXPTS));
  e.detail = sx_sh->detail; e.obs1 = sx_sh->obs[1]; e.obs2 = sx_sh->obs[2]; e.races = sx_sh->races; e.race_text = sx_sh->race_text;
  if (e.outcome == SX_OUT_RUNNING && !e.hang) { e.outcome = SX_OUT_ORACLE; char b[128]; snprintf(b, sizeof b, "child died (status 0x%x) before reporting", st); e.detail = b; }
  if (e.outcome == SX_OUT_OK && DRV == DB && HAVE_REF && (e.obs1 != REF_HASH || e.obs2 != REF_LEN)) { e.outcome = SX_OUT_ORACLE; e.detail = "saved image differs from the single-thread reference image"; }
  if (e.races > 0 && e.outcome == SX_OUT_OK) e.outcome = SX_OUT_RACE;
  return e;
}

static str sched_str(const std::vector<uint8_t> &v) { str s; for (size_t i = 0; i < v.size(); i++) { if (i) s += ","; s += std::to_string((int)v[i]); } return s; }
static str trace_str(const Exec &e) {
  str s;
  for (int i = 0; i < e.npoints; i++) { const sx_point_t &p = e.pts[i]; char b[96];
    snprintf(b, sizeof b, "%sT%d:%s(o%d)", i ? " " : "", p.enabled[p.chosen], sx_opname(p.op), p.obj); s += b; }
  return s;
}
static str jesc(const str &s) { str o; for (unsigned char c : s) { if (c == '"' || c == '\\') { o += '\\'; o += c; } else if (c < 0x20) o += ' '; else o += c; } return o; }

int main(int argc, char **argv) {
  str drv = "D1", out, replay; int bound = 2; double deadline = 1e18, per_exec = 10; bool prune = false; bool have_replay = false;
  long max_exec = -1; bool hb = false; str dump_hb;
  for (int i = 1; i < argc; i++) { str a = argv[i]; auto nx = [&]() { return str(i + 1 < argc ? argv[++i] : ""); };
    if (a == "--driver") drv = nx(); else if (a == "--workers") W_ = atoi(nx().c_str()); else if (a == "--tasks") T_ = atoi(nx().c_str());
    else if (a == "--bound") bound = atoi(nx().c_str()); else if (a == "--out") out = nx(); else if (a == "--deadline") deadline = now_s() + atof(nx().c_str());
    else if (a == "--prune") prune = true; else if (a == "--hb") hb = true; else if (a == "--dump-hb") dump_hb = nx(); else if (a == "--replay") { replay = nx(); have_replay = true; } else if (a == "--variant") DRV_VARIANT = atoi(nx().c_str());
    else if (a == "--exec-timeout") per_exec = atof(nx().c_str()); else if (a == "--max-exec") max_exec = atol(nx().c_str()); }
  DRV = driver_by_name(drv);
  if (!DRV) { fprintf(stderr, "unknown driver\n"); return 2; }
  sx_sh = (sx_shared_t *)mmap(0, sizeof(sx_shared_t), PROT_READ | PROT_WRITE, MAP_SHARED | MAP_ANONYMOUS, -1, 0);
  double t0 = now_s();

  if (DRV == DB) {   // reference image: one worker thread, default schedule
    int keepW = W_; W_ = 1;
    Exec r = run_once({}, per_exec);
    W_ = keepW;
    if (r.outcome == SX_OUT_OK) { REF_HASH = r.obs1; REF_LEN = r.obs2; HAVE_REF = true; }
    else { fprintf(stderr, "reference build failed: outcome %d %s\n", r.outcome, r.detail.c_str()); }
  }

  if (have_replay) {
    std::vector<uint8_t> p; { std::stringstream ss(replay); str tok; while (std::getline(ss, tok, ',')) if (!tok.empty()) p.push_back((uint8_t)atoi(tok.c_str())); }
    Exec a = run_once(p, per_exec * 10), b = run_once(p, per_exec * 10);
    bool same = a.outcome == b.outcome && a.npoints == b.npoints && trace_str(a) == trace_str(b);
    printf("{\"outcome\":%d,\"hang\":%s,\"deterministic\":%s,\"detail\":\"%s\",\"races\":%d,\"race\":\"%s\",\"trace\":\"%s\"}\n", a.outcome, a.hang ? "true" : "false", same ? "true" : "false", jesc(a.detail).c_str(), a.races, jesc(a.race_text).c_str(), jesc(trace_str(a)).c_str());
    return 0;
  }

  // BFS over preemption cost
  // --hb: no preemption bound; the search is closed by state matching on the happens-before state (sched.c): an alternative
  // (state, thread) is expanded once.  Depth-first (LIFO) to keep the frontier small.
  if (hb) bound = 0;
  struct Item { std::vector<uint8_t> prefix; };
  std::set<uint64_t> hb_states; long hb_pruned = 0;
  std::vector<std::deque<Item>> level(bound + 2);
  level[0].push_back({{}});
  long execs = 0, transitions = 0; std::map<int, long> outcomes; std::set<uint64_t> states;
  std::vector<long> per_bound(bound + 1, 0);
  int completed_bound = -1; bool complete = true; long pruned = 0;
  struct Viol { int outcome; str detail; std::vector<uint8_t> sched; int cost; str trace; str race; };
  std::vector<Viol> viols; std::set<str> viol_keys;
  std::vector<str> samples;
  std::set<uint64_t> seen_prune;     // (state hash at the choice point, alternative) already expanded  [--prune]
  long maxpts = 0;
  for (int b = 0; b <= bound && complete; b++) {
    while (!level[b].empty()) {
      if (now_s() > deadline || (max_exec >= 0 && execs >= max_exec)) { complete = false; break; }
      Item it; if (hb) { it = level[b].back(); level[b].pop_back(); } else { it = level[b].front(); level[b].pop_front(); }
      Exec e = run_once(it.prefix, per_exec);
      if (e.hang) {   // re-run alone with a 10x limit before calling it non-termination
        Exec e2 = run_once(it.prefix, per_exec * 10);
        if (!e2.hang) e = e2; else { e.outcome = SX_OUT_TOOLONG; e.detail = "execution did not finish within the time limit (twice, 10x limit the second time)"; }
      }
      execs++; per_bound[b]++; transitions += e.npoints; outcomes[e.outcome]++;
      if (e.npoints > maxpts) maxpts = e.npoints;
      for (auto &p : e.pts) states.insert(p.state_hash);
      for (int i = 0; i < e.npoints; i++) { const sx_point_t &p = e.pts[i]; hb_states.insert(p.hb_hash);
        if (hb && i >= (int)it.prefix.size()) seen_prune.insert(p.hb_hash * 1000003ULL + (uint64_t)p.enabled[p.chosen] * 131); }
      if (samples.size() < 3 || (execs % 5000 == 0 && samples.size() < 6)) samples.push_back("{\"schedule\":\"" + sched_str(it.prefix) + "\",\"preemptions\":" + std::to_string(b) + ",\"trace\":\"" + jesc(trace_str(e)) + "\"}");
      if (e.outcome != SX_OUT_OK) {
        str key = std::to_string(e.outcome) + "|" + e.detail.substr(0, 60) + "|" + e.race_text.substr(0, 80);
        if (!viol_keys.count(key) && viols.size() < 50) { viol_keys.insert(key);
          std::vector<uint8_t> full; for (auto &p : e.pts) full.push_back(p.chosen);
          int pre = b; if (hb) { pre = 0; for (auto &p : e.pts) if (p.running_enabled && p.chosen != 0) pre++; }
          viols.push_back({e.outcome, e.detail, full, pre, trace_str(e), e.race_text}); }
      }
      if (e.outcome == SX_OUT_DIVERGED) continue;
      // expand alternatives at every point after the prefix
      int cost = 0;
      for (int i = 0; i < e.npoints; i++) {
        const sx_point_t &p = e.pts[i];
        if (i >= (int)it.prefix.size()) {
          for (int alt = 1; alt < p.nenabled; alt++) {
            int nc = cost + (p.running_enabled ? 1 : 0);
            // total cost of the new schedule = preemptions inside the prefix (cost so far) + this switch
            if (hb) { nc = 0; uint64_t k = p.hb_hash * 1000003ULL + (uint64_t)p.enabled[alt] * 131; if (seen_prune.count(k)) { hb_pruned++; continue; } seen_prune.insert(k); }
            else if (nc > bound) continue;
            if (prune) { uint64_t k = p.state_hash * 1000003ULL + (uint64_t)p.enabled[alt] * 131 + nc; if (seen_prune.count(k)) { pruned++; continue; } seen_prune.insert(k); }
            Item ni; ni.prefix.reserve(i + 1);
            for (int j = 0; j < i; j++) ni.prefix.push_back(e.pts[j].chosen);
            ni.prefix.push_back((uint8_t)alt);
            level[nc].push_back(std::move(ni));
          }
        }
        if (p.running_enabled && p.chosen != 0) cost++;
      }
    }
    if (complete) completed_bound = b;
  }
  if (!dump_hb.empty()) { FILE *g = fopen(dump_hb.c_str(), "w"); for (uint64_t h : hb_states) fprintf(g, "%016lx\n", (unsigned long)h); fclose(g); }
  FILE *f = out.empty() ? stdout : fopen(out.c_str(), "w");
  fprintf(f, "{\"driver\":\"%s\",\"workers\":%d,\"tasks\":%d,\"variant\":%d,\"bound\":%d,\"completed_bound\":%d,\"complete\":%s,\"prune\":%s,\"pruned\":%ld,\"tsan\":%d,"
             "\"hb\":%s,\"hb_states\":%zu,\"hb_pruned\":%ld,\"executions\":%ld,\"transitions\":%ld,\"states\":%zu,\"max_choice_points\":%ld,\"wall_s\":%.2f,\"per_bound\":[",
          drv.c_str(), W_, T_, DRV_VARIANT, bound, completed_bound, complete ? "true" : "false", prune ? "true" : "false", pruned, SX_TSAN, hb ? "true" : "false", hb_states.size(), hb_pruned, execs, transitions, states.size(), maxpts, now_s() - t0);
  for (int b = 0; b <= bound; b++) fprintf(f, "%s%ld", b ? "," : "", per_bound[b]);
  fprintf(f, "],\"outcomes\":{");
  { bool first = true; for (auto &kv : outcomes) { fprintf(f, "%s\"%d\":%ld", first ? "" : ",", kv.first, kv.second); first = false; } }
  fprintf(f, "},\"samples\":[");
  for (size_t i = 0; i < samples.size(); i++) fprintf(f, "%s%s", i ? "," : "", samples[i].c_str());
  fprintf(f, "],\"violations\":[");
  for (size_t i = 0; i < viols.size(); i++) fprintf(f, "%s{\"outcome\":%d,\"detail\":\"%s\",\"schedule\":\"%s\",\"preemptions\":%d,\"trace\":\"%s\",\"race\":\"%s\"}", i ? "," : "", viols[i].outcome, jesc(viols[i].detail).c_str(), sched_str(viols[i].sched).c_str(), viols[i].cost, jesc(viols[i].trace).c_str(), jesc(viols[i].race).c_str());
  fprintf(f, "]}\n");
  if (f != stdout) fclose(f);
  return 0;
}
