// oracles.hpp -- per-property oracles evaluated on one (dictionary object, model) pair.
#pragma once
#include "ops.hpp"

struct Cell {            // one concrete dictionary input + its query universe
  strs S;                // sorted members (concrete bytes)
  strs Q;                // query universe (concrete)
  int pal = 0, sigma = 2, L = 2, stretch = 1, pre = 0, rep = 1;
  str family;            // non-empty: the set comes from a named deterministic family (scope.hpp), queries from family_queries()
};

// ---- C01 round trip
static void o_C01(Ctx &c, StringDictionary *d, const Model &M) {
  size_t n = M.n();
  std::vector<size_t> ids;
  for (auto &s : M.S) {
    size_t id = x_locate(c, d, s);
    if (id == (size_t)-2) continue;
    if (id < 1 || id > n) { c.fail("locate", "member_not_found", fmt("locate(member)=%zu outside [1,%zu]", id, n), s); continue; }
    ids.push_back(id);
    XAns a = x_extract(c, d, id);
    if (a.threw) continue;
    if (a.null) { c.fail("extract", "null_for_valid_id", fmt("extract(%zu)=NULL", id), s); continue; }
    if (a.s != s) c.fail("extract", "roundtrip_mismatch", fmt("extract(locate(s)) = '%s' != s", show(a.s).c_str()), s);
    else if (!a.lenok) c.fail("extract", "strlen_mismatch", fmt("reported length %u != strlen %zu", a.len, a.s.size()), s);
  }
  std::sort(ids.begin(), ids.end());
  for (size_t i = 1; i < ids.size(); i++) if (ids[i] == ids[i - 1]) { c.fail("locate", "duplicate_id", fmt("two members share ID %zu", ids[i])); break; }
  for (size_t i = 1; i <= n; i++) {
    XAns a = x_extract(c, d, i);
    if (a.threw) continue;
    if (a.null) { c.fail("extract", "null_for_valid_id", fmt("extract(%zu)=NULL, n=%zu", i, n), fmt("%zu", i)); continue; }
    if (!M.rank(a.s)) { c.fail("extract", "not_a_member", fmt("extract(%zu)='%s' is not a member", i, show(a.s).c_str()), fmt("%zu", i)); continue; }
    if (!a.lenok) c.fail("extract", "strlen_mismatch", fmt("extract(%zu): reported length %u != strlen %zu", i, a.len, a.s.size()), fmt("%zu", i));
    size_t id = x_locate(c, d, a.s);
    if (id != i && id != (size_t)-2) c.fail("locate", "locate_extract_mismatch", fmt("locate(extract(%zu))=%zu", i, id), a.s);
  }
}

// ---- C02 no false positives
static void o_C02(Ctx &c, StringDictionary *d, const Model &M, const Cell &cell) {
  for (auto &q : cell.Q) {
    if (M.rank(q)) continue;
    size_t id = x_locate(c, d, q);
    if (id == (size_t)-2) continue;
    if (id != 0) c.fail("locate", "false_positive", fmt("locate(absent)=%zu", id), q);
  }
  for (size_t id : bad_ids(M.n())) {
    XAns a = x_extract(c, d, id);
    if (a.threw) continue;
    if (!a.null) c.fail("extract", "string_for_bad_id", fmt("extract(%zu) returned '%s', n=%zu", id, show(a.s).c_str(), M.n()), fmt("%zu", id));
    else if (a.len != 0) c.fail("extract", "len_nonzero_for_bad_id", fmt("extract(%zu)=NULL but length=%u", id, a.len), fmt("%zu", id));
  }
}

// ---- C03 order
static void o_C03(Ctx &c, StringDictionary *d, const Model &M) {
  size_t n = M.n();
  if (k_ordered(c.kind)) {
    for (size_t i = 1; i <= n; i++) {
      XAns a = x_extract(c, d, i);
      if (a.threw) continue;
      if (a.null || a.s != M.S[i - 1]) c.fail("extract", "not_ith_smallest", fmt("extract(%zu)='%s' expected '%s'", i, a.null ? "NULL" : show(a.s).c_str(), show(M.S[i - 1]).c_str()), fmt("%zu", i));
      size_t id = x_locate(c, d, M.S[i - 1]);
      if (id != i && id != (size_t)-2) c.fail("locate", "id_not_rank", fmt("locate(%zu-th smallest)=%zu", i, id), M.S[i - 1]);
    }
  }
  // rank operations: every kind that returns a non-null rank answer
  for (size_t k = 1; k <= n; k++) {
    XAns a = x_extractRank(c, d, k);
    if (a.threw) continue;
    if (!a.null) {
      if (a.s != M.S[k - 1]) c.fail("extractRank", "not_kth_smallest", fmt("extractRank(%zu)='%s' expected '%s'", k, show(a.s).c_str(), show(M.S[k - 1]).c_str()), fmt("%zu", k));
      else if (!a.lenok) c.fail("extractRank", "strlen_mismatch", "reported length != strlen", fmt("%zu", k));
    } else if (cap_rank(c.kind)) c.fail("extractRank", "null_for_valid_rank", fmt("extractRank(%zu)=NULL", k), fmt("%zu", k));
    long r = x_locateRank(c, d, k);
    if (r > 0) {
      XAns b = x_extract(c, d, (size_t)r);
      if (!b.threw && (b.null || b.s != M.S[k - 1])) c.fail("locateRank", "rank_id_mismatch", fmt("extract(locateRank(%zu)=%ld)='%s' expected '%s'", k, r, b.null ? "NULL" : show(b.s).c_str(), show(M.S[k - 1]).c_str()), fmt("%zu", k));
    } else if (r == 0 && cap_rank(c.kind)) c.fail("locateRank", "zero_for_valid_rank", fmt("locateRank(%zu)=0", k), fmt("%zu", k));
  }
}

// id -> string mapping of this object (needed for kinds whose numbering is not the rank)
static bool id_map(Ctx &c, StringDictionary *d, const Model &M, std::vector<str> &byid) {
  byid.assign(M.n() + 1, "");
  for (size_t i = 1; i <= M.n(); i++) { XAns a = x_extract(c, d, i); if (a.threw || a.null) return false; byid[i] = a.s; }
  return true;
}

// ---- C04 prefix search
static void o_C04(Ctx &c, StringDictionary *d, const Model &M, const Cell &cell) {
  if (!cap_prefix(c.kind)) return;
  size_t n = M.n(), cap = 2 * n + 8;
  std::vector<str> byid;
  bool have_map = true;
  if (!k_ordered(c.kind)) have_map = id_map(c, d, M, byid);
  for (auto &q : cell.Q) {
    std::vector<size_t> exp = M.prefix(q);
    IdList r = x_locatePrefix(c, d, q, cap);
    if (!r.threw) {
      if (r.overrun) c.fail("locatePrefix", "iterator_overrun", fmt("more than %zu IDs", cap), q);
      else if (r.null) { if (!exp.empty()) c.fail("locatePrefix", "null_iterator_with_matches", fmt("%zu members match", exp.size()), q); }
      else if (k_ordered(c.kind)) {
        if (r.ids != exp) c.fail("locatePrefix", "wrong_id_range", fmt("got %zu IDs [%zu..%zu], expected %zu [%zu..%zu]", r.ids.size(), r.ids.empty() ? 0 : r.ids.front(), r.ids.empty() ? 0 : r.ids.back(), exp.size(), exp.empty() ? 0 : exp.front(), exp.empty() ? 0 : exp.back()), q);
      } else if (have_map) {
        // IDs must denote exactly the matching members, each once
        std::multiset<str> got, want;
        bool bad = false;
        for (size_t id : r.ids) { if (id < 1 || id > n) { bad = true; break; } got.insert(byid[id]); }
        for (size_t e : exp) want.insert(M.S[e - 1]);
        if (bad) c.fail("locatePrefix", "id_out_of_range", "ID outside [1,n]", q);
        else if (got != want) c.fail("locatePrefix", "wrong_id_set", fmt("got %zu IDs, expected %zu", r.ids.size(), exp.size()), q);
      }
    }
    StrList s = x_extractPrefix(c, d, q, cap);
    if (!s.threw) {
      strs want; for (size_t e : exp) want.push_back(M.S[e - 1]);
      if (s.overrun) c.fail("extractPrefix", "iterator_overrun", fmt("more than %zu strings", cap), q);
      else if (s.null) { if (!want.empty()) c.fail("extractPrefix", "null_iterator_with_matches", fmt("%zu members match", want.size()), q); }
      else {
        strs got = s.v;
        if (!k_ordered(c.kind)) { std::sort(got.begin(), got.end(), ult); }
        if (got != want) c.fail("extractPrefix", "wrong_strings", fmt("got %zu strings (first '%s'), expected %zu", got.size(), got.empty() ? "" : show(got[0]).c_str(), want.size()), q);
        else if (s.lenbad) c.fail("extractPrefix", "strlen_mismatch", "reported length != strlen", q);
      }
    }
  }
}

// ---- C05 substring search
static void o_C05(Ctx &c, StringDictionary *d, const Model &M, const Cell &cell) {
  if (!cap_substr(c.kind, c.p)) return;
  size_t n = M.n(), cap = 4 * n * (cell.L * cell.stretch + 2) + 8;
  std::vector<str> byid;
  bool have_map = true;
  if (!k_ordered(c.kind)) have_map = id_map(c, d, M, byid);
  for (auto &q : cell.Q) {
    std::vector<size_t> exp = M.substr(q);
    IdList r = x_locateSubstr(c, d, q, cap);
    if (!r.threw) {
      if (r.overrun) c.fail("locateSubstr", "iterator_overrun", fmt("more than %zu IDs", cap), q);
      else if (r.null) { if (!exp.empty()) c.fail("locateSubstr", "null_iterator_with_matches", fmt("%zu members match", exp.size()), q); }
      else {
        std::vector<size_t> got = r.ids; std::sort(got.begin(), got.end());
        bool dup = false; for (size_t i = 1; i < got.size(); i++) if (got[i] == got[i - 1]) dup = true;
        if (dup) c.fail("locateSubstr", "duplicate_id", "an ID is reported twice", q);
        else if (k_ordered(c.kind)) { if (got != exp) c.fail("locateSubstr", "wrong_id_set", fmt("got %zu IDs, expected %zu", got.size(), exp.size()), q); }
        else if (have_map) {
          std::multiset<str> g, w; bool bad = false;
          for (size_t id : got) { if (id < 1 || id > n) { bad = true; break; } g.insert(byid[id]); }
          for (size_t e : exp) w.insert(M.S[e - 1]);
          if (bad) c.fail("locateSubstr", "id_out_of_range", "ID outside [1,n]", q);
          else if (g != w) c.fail("locateSubstr", "wrong_id_set", fmt("got %zu IDs, expected %zu", got.size(), exp.size()), q);
        }
      }
    }
    StrList s = x_extractSubstr(c, d, q, cap);
    if (!s.threw) {
      strs want; for (size_t e : exp) want.push_back(M.S[e - 1]);
      if (s.overrun) c.fail("extractSubstr", "iterator_overrun", fmt("more than %zu strings", cap), q);
      else if (s.null) { if (!want.empty()) c.fail("extractSubstr", "null_iterator_with_matches", fmt("%zu members match", want.size()), q); }
      else {
        strs got = s.v; std::sort(got.begin(), got.end(), ult);
        if (got != want) c.fail("extractSubstr", "wrong_strings", fmt("got %zu strings, expected %zu", got.size(), want.size()), q);
        else if (s.lenbad) c.fail("extractSubstr", "strlen_mismatch", "reported length != strlen", q);
      }
    }
  }
}

// ---- C13 table scan + iterator protocol
static void o_C13(Ctx &c, StringDictionary *d, const Model &M, const Cell &cell) {
  size_t n = M.n(), cap = 2 * n + 8;
  if (cap_table(c.kind)) {
    StrList t = x_extractTable(c, d, cap);
    if (!t.threw) {
      if (t.null) c.fail("extractTable", "null_iterator", "extractTable returned NULL");
      else if (t.overrun) c.fail("extractTable", "iterator_overrun", "hasNext never became false");
      else {
        if (t.v.size() != n) c.fail("extractTable", "wrong_count", fmt("%zu strings, numElements %zu", t.v.size(), n));
        if (t.lenbad) c.fail("extractTable", "strlen_mismatch", "reported length != strlen");
        for (size_t k = 1; k <= std::min(n, t.v.size()); k++) {
          XAns a = x_extract(c, d, k);
          if (a.threw) continue;
          if (a.null || a.s != t.v[k - 1]) { c.fail("extractTable", "kth_not_extract_k", fmt("table[%zu]='%s' but extract(%zu)='%s'", k, show(t.v[k - 1]).c_str(), k, a.null ? "NULL" : show(a.s).c_str())); break; }
        }
        if (k_ordered(c.kind) && t.v.size() == n && t.v != M.S) c.fail("extractTable", "not_sorted_input", "table differs from the sorted input");
        if (t.v.size() == n) { strs g = t.v; std::sort(g.begin(), g.end(), ult); if (g != M.S) c.fail("extractTable", "not_a_permutation", "table is not the member set"); }
      }
    }
  }
  // iterator protocol for prefix/substring iterators (IDs at most once, ascending for ordered kinds)
  if (cap_prefix(c.kind)) for (auto &q : cell.Q) {
    IdList r = x_locatePrefix(c, d, q, cap);
    if (r.threw || r.null) continue;
    if (r.overrun) { c.fail("locatePrefix", "iterator_overrun", "hasNext never became false", q); continue; }
    std::vector<size_t> g = r.ids; std::sort(g.begin(), g.end());
    for (size_t i = 1; i < g.size(); i++) if (g[i] == g[i - 1]) { c.fail("locatePrefix", "duplicate_id", "an ID is reported twice", q); break; }
    if (k_ordered(c.kind) && g != r.ids) c.fail("locatePrefix", "not_ascending", "IDs not ascending", q);
    StrList s = x_extractPrefix(c, d, q, cap);
    if (s.threw || s.null) continue;
    if (s.overrun) c.fail("extractPrefix", "iterator_overrun", "hasNext never became false", q);
    if (s.lenbad) c.fail("extractPrefix", "strlen_mismatch", "reported length != strlen", q);
  }
  if (cap_substr(c.kind, c.p)) for (auto &q : cell.Q) {
    size_t cap2 = 4 * n * (cell.L * cell.stretch + 2) + 8;
    IdList r = x_locateSubstr(c, d, q, cap2);
    if (r.threw || r.null) continue;
    if (r.overrun) { c.fail("locateSubstr", "iterator_overrun", "hasNext never became false", q); continue; }
    std::vector<size_t> g = r.ids; std::sort(g.begin(), g.end());
    for (size_t i = 1; i < g.size(); i++) if (g[i] == g[i - 1]) { c.fail("locateSubstr", "duplicate_id", "an ID is reported twice", q); break; }
    if (k_ordered(c.kind) && g != r.ids) c.fail("locateSubstr", "not_ascending", "IDs not ascending", q);
    StrList s = x_extractSubstr(c, d, q, cap2);
    if (s.threw || s.null) continue;
    if (s.overrun) c.fail("extractSubstr", "iterator_overrun", "hasNext never became false", q);
    if (s.lenbad) c.fail("extractSubstr", "strlen_mismatch", "reported length != strlen", q);
  }
}

// ---- C15 metadata
static void o_C15(Ctx &c, StringDictionary *d, const Model &M) {
  pg_op("numElements"); c.transitions++;
  size_t ne = d->numElements();
  if (ne != M.n()) c.fail("numElements", "wrong_count", fmt("numElements=%zu, built from %zu strings", ne, M.n()));
  pg_op("maxLength"); c.transitions++;
  size_t ml = d->maxLength(), mx = M.maxlen();
  if (ml < mx) c.fail("maxLength", "too_small", fmt("maxLength=%zu < longest member %zu", ml, mx));
  else if (ml > mx + 1) c.fail("maxLength", "too_large", fmt("maxLength=%zu > longest member %zu + 1", ml, mx));
}

// ---- C16 unsupported operations fail safe (on one object); loader part is in bx.cpp
static void o_C16_ops(Ctx &c, StringDictionary *d, const Model &M, const Cell &cell) {
  size_t n = M.n(), cap = 2 * n + 8;
  auto usable = [&](const char *after) {
    // the dictionary must remain fully usable: round trip of first/last member
    for (size_t i : {(size_t)1, n}) {
      XAns a = x_extract(c, d, i);
      if (a.threw) return;
      if (a.null || !M.rank(a.s)) { c.fail(after, "unusable_after_unsupported_op", fmt("extract(%zu) broken afterwards", i)); return; }
      size_t id = x_locate(c, d, a.s);
      if (id != i) { c.fail(after, "unusable_after_unsupported_op", fmt("locate(extract(%zu))=%zu afterwards", i, id)); return; }
    }
  };
  // arbitrary well-formed arguments: the whole query universe (members, prefixes, absent and foreign strings, strings longer
  // than every member) and two arguments far longer than the longest member.  The statement asks for a NULL iterator: an
  // empty non-null iterator is reported as well (the caller cannot tell "not provided" from "no match").
  strs qs = cell.Q;
  qs.push_back(M.S[n - 1] + M.S[n - 1] + M.S[0]);
  qs.push_back(str(M.maxlen() + 300, M.S[0][0]));
  if (!cap_prefix(c.kind)) { for (auto &q : qs) {
    IdList r = x_locatePrefix(c, d, q, cap);
    if (!r.threw && !r.null) c.fail("locatePrefix", r.ids.empty() ? "non_null_iterator" : "fabricated_answer", fmt("unsupported op returned an iterator with %zu IDs", r.ids.size()), q);
    StrList s = x_extractPrefix(c, d, q, cap);
    if (!s.threw && !s.null) c.fail("extractPrefix", s.v.empty() ? "non_null_iterator" : "fabricated_answer", fmt("unsupported op returned an iterator with %zu strings", s.v.size()), q);
  } usable("locatePrefix"); }
  if (!cap_substr(c.kind, c.p)) { for (auto &q : qs) {
    IdList r = x_locateSubstr(c, d, q, cap);
    if (!r.threw && !r.null) c.fail("locateSubstr", r.ids.empty() ? "non_null_iterator" : "fabricated_answer", fmt("unsupported op returned an iterator with %zu IDs", r.ids.size()), q);
    StrList s = x_extractSubstr(c, d, q, cap);
    if (!s.threw && !s.null) c.fail("extractSubstr", s.v.empty() ? "non_null_iterator" : "fabricated_answer", fmt("unsupported op returned an iterator with %zu strings", s.v.size()), q);
  } usable("locateSubstr"); }
  if (!cap_rank(c.kind)) for (size_t k : {(size_t)1, n, n + 1, (size_t)0}) {
    long r = x_locateRank(c, d, k);
    if (r != 0 && r != -2) c.fail("locateRank", "fabricated_answer", fmt("unsupported locateRank(%zu)=%ld", k, r));
    XAns a = x_extractRank(c, d, k);
    if (!a.threw && !a.null) c.fail("extractRank", "fabricated_answer", fmt("unsupported extractRank(%zu)='%s'", k, show(a.s).c_str()));
    usable("locateRank");
  }
  if (!cap_table(c.kind)) {
    StrList t = x_extractTable(c, d, cap);
    if (!t.threw && !t.null) c.fail("extractTable", t.v.empty() ? "non_null_iterator" : "fabricated_answer", fmt("unsupported table scan returned an iterator with %zu strings", t.v.size()));
    usable("extractTable");
  }
}

// ---------------------------------------------------------------- canonical observation vector
// Textual record of every answer of one object to the whole query universe.  `idfree` drops the
// concrete IDs of the hash kinds / XBW (documented numbering may differ between parameterisations).
static void observe(Ctx &c, StringDictionary *d, const Model &M, const Cell &cell, bool idfree, std::vector<str> &out) {
  size_t n = M.n(), cap = 2 * n + 8;
  auto idstr = [&](size_t id) { return idfree ? str(id ? "+" : "0") : fmt("%zu", id); };
  pg_op("numElements"); out.push_back(fmt("n=%zu", (size_t)d->numElements()));
  pg_op("maxLength"); out.push_back(fmt("ml=%u", d->maxLength()));
  for (auto &q : cell.Q) { size_t id = x_locate(c, d, q); out.push_back("L:" + hex(q) + "=" + idstr(id)); }
  if (!idfree) for (size_t i = 0; i <= n + 1; i++) { XAns a = x_extract(c, d, i); out.push_back(fmt("E:%zu=", i) + (a.null ? "NULL" : hex(a.s)) + (a.lenok ? "" : "!len")); }
  else { strs all; for (size_t i = 1; i <= n; i++) { XAns a = x_extract(c, d, i); all.push_back(a.null ? "NULL" : hex(a.s)); }
         std::sort(all.begin(), all.end()); for (auto &s : all) out.push_back("E*:" + s);
         for (size_t i : {(size_t)0, n + 1}) { XAns a = x_extract(c, d, i); out.push_back(fmt("E:%zu=", i) + (a.null ? "NULL" : hex(a.s))); } }
  // round trip (ID independent)
  for (auto &s : M.S) { size_t id = x_locate(c, d, s); XAns a = x_extract(c, d, id); out.push_back("RT:" + hex(s) + "=" + (a.null ? "NULL" : hex(a.s))); }
  for (auto &q : cell.Q) {
    { IdList r = x_locatePrefix(c, d, q, cap); str t = "LP:" + hex(q) + "="; if (r.null) t += "NULLIT"; else if (idfree) t += fmt("#%zu", r.ids.size()); else for (size_t id : r.ids) t += fmt("%zu,", id); out.push_back(t); }
    { StrList r = x_extractPrefix(c, d, q, cap); str t = "EP:" + hex(q) + "="; if (r.null) t += "NULLIT"; else { strs g = r.v; if (idfree) std::sort(g.begin(), g.end()); for (auto &s : g) t += hex(s) + ","; } out.push_back(t); }
    { IdList r = x_locateSubstr(c, d, q, 4 * cap * (cell.L * cell.stretch + 2)); str t = "LS:" + hex(q) + "="; if (r.null) t += "NULLIT"; else { auto g = r.ids; std::sort(g.begin(), g.end()); if (idfree) t += fmt("#%zu", g.size()); else for (size_t id : g) t += fmt("%zu,", id); } out.push_back(t); }
    { StrList r = x_extractSubstr(c, d, q, 4 * cap * (cell.L * cell.stretch + 2)); str t = "ES:" + hex(q) + "="; if (r.null) t += "NULLIT"; else { strs g = r.v; std::sort(g.begin(), g.end()); for (auto &s : g) t += hex(s) + ","; } out.push_back(t); }
  }
  for (size_t k = 1; k <= n; k++) {
    long r = x_locateRank(c, d, k); XAns a = x_extractRank(c, d, k);
    out.push_back(fmt("R:%zu=", k) + (idfree ? str(r ? "+" : "0") : fmt("%ld", r)) + "/" + (a.null ? "NULL" : hex(a.s)));
  }
  { StrList t = x_extractTable(c, d, cap); str s = "T="; if (t.null) s += "NULLIT"; else { strs g = t.v; if (idfree) std::sort(g.begin(), g.end()); for (auto &x : g) s += hex(x) + ","; } out.push_back(s); }
}
