// scope.hpp -- declared input spaces shared by BX and HX: scopes, set enumeration, parameter domains, cells
#pragma once
#include "oracles.hpp"

// ------------------------------------------------------------------ scope
struct Scope {
  int sigma = 2, L = 2, maxn = 0, co = -1, nf = 2, minn = 1, exact = 0;
  str family; std::vector<int> depths;   // family=fibruns,depth=14+16: one set per depth instead of subsets of U
  int rep = 1;                   // replication: the set is repeated under `rep` distinct 2-byte group tags (many copies of one small pattern:
                                 // reaches the short-codeword regime of the statistical coders, which a handful of strings never does)
  str ramp;                      // "lex" | "shortlex" | "both": the sets are the first n strings of the universe in that order, n = 1..|U|
  std::vector<int> pres = {0};   // length of a common prefix prepended to every string (VByte boundaries of the shared-prefix length)
  std::vector<int> pals = {0}, stretches = {1};
  str pd = "quick";
  std::vector<int> kinds;
  str s;
  static Scope parse(const str &t) {
    Scope sc; sc.s = t;
    for (auto &kv : split(t, ',')) {
      auto e = split(kv, '=');
      if (e.size() != 2) continue;
      if (e[0] == "sigma") sc.sigma = atoi(e[1].c_str());
      else if (e[0] == "L") sc.L = atoi(e[1].c_str());
      else if (e[0] == "maxn") sc.maxn = atoi(e[1].c_str());
      else if (e[0] == "minn") sc.minn = atoi(e[1].c_str());
      else if (e[0] == "co") sc.co = atoi(e[1].c_str());
      else if (e[0] == "nf") sc.nf = atoi(e[1].c_str());
      else if (e[0] == "exact") sc.exact = atoi(e[1].c_str());
      else if (e[0] == "rep") sc.rep = atoi(e[1].c_str());
      else if (e[0] == "family") sc.family = e[1];
      else if (e[0] == "depth") { for (auto &x : split(e[1], '+')) sc.depths.push_back(atoi(x.c_str())); }
      else if (e[0] == "ramp") sc.ramp = e[1];
      else if (e[0] == "pd") sc.pd = e[1];
      else if (e[0] == "pal") { sc.pals.clear(); for (auto &x : split(e[1], '+')) sc.pals.push_back(pal_by_name(x)); }
      else if (e[0] == "pre") { sc.pres.clear(); for (auto &x : split(e[1], '+')) sc.pres.push_back(atoi(x.c_str())); }
      else if (e[0] == "stretch") { sc.stretches.clear(); for (auto &x : split(e[1], '+')) sc.stretches.push_back(atoi(x.c_str())); }
      else if (e[0] == "kinds") { for (auto &x : split(e[1], '+')) sc.kinds.push_back(kind_by_name(x)); }
    }
    if (sc.kinds.empty()) for (int k = 0; k < NKINDS; k++) sc.kinds.push_back(k);
    return sc;
  }
};

typedef uint64_t setmask;
// the universe of a scope: U(sigma,L), or with exact=1 only its strings of length exactly L
static void scope_universe(const Scope &sc, strs &U) {
  strs all; gen_universe(sc.sigma, sc.L, all);
  for (auto &s : all) if (!sc.exact || (int)s.size() == sc.L) U.push_back(s);
  if (U.size() > 64) { fprintf(stderr, "universe of %zu strings exceeds the 64-bit set mask\n", U.size()); exit(2); }
}
static std::vector<setmask> enum_sets(const Scope &sc, const strs &U) {
  size_t m = U.size();
  std::vector<setmask> v;
  setmask full = (m >= 64) ? ~(setmask)0 : (((setmask)1 << m) - 1);
  if (!sc.ramp.empty()) {      // ramps: every cardinality 1..|U| along a fixed order (size relations: table/word/bucket boundaries)
    if (sc.ramp == "lex" || sc.ramp == "both") { setmask x = 0; for (size_t i = 0; i < m; i++) { x |= (setmask)1 << i; v.push_back(x); } }
    if (sc.ramp == "shortlex" || sc.ramp == "both") {
      std::vector<size_t> ord(m); for (size_t i = 0; i < m; i++) ord[i] = i;
      std::stable_sort(ord.begin(), ord.end(), [&](size_t a, size_t b) { return U[a].size() < U[b].size(); });
      setmask x = 0; for (size_t i = 0; i < m; i++) { x |= (setmask)1 << ord[i]; v.push_back(x); }
    }
    std::sort(v.begin(), v.end()); v.erase(std::unique(v.begin(), v.end()), v.end());
  } else if (sc.co >= 0) {           // co-small: all but <= co strings
    std::function<void(setmask, int, int)> rec = [&](setmask mask, int from, int left) {
      v.push_back(mask);
      if (!left) return;
      for (int i = from; i < (int)m; i++) rec(mask & ~((setmask)1 << i), i + 1, left - 1);
    };
    rec(full, 0, sc.co);
  } else if (sc.maxn > 0) {
    std::function<void(setmask, int, int)> rec = [&](setmask mask, int from, int left) {
      if (mask) v.push_back(mask);
      if (!left) return;
      for (int i = from; i < (int)m; i++) rec(mask | ((setmask)1 << i), i + 1, left - 1);
    };
    rec(0, 0, sc.maxn);
  } else {
    if (m > 30) { fprintf(stderr, "all subsets of %zu strings: use maxn=, co= or ramp=\n", m); exit(2); }
    for (setmask x = 1; x <= full; x++) v.push_back(x);
  }
  std::vector<setmask> w;
  for (setmask x : v) if (__builtin_popcountll(x) >= sc.minn) w.push_back(x);
  std::stable_sort(w.begin(), w.end(), [](setmask a, setmask b) {
    int pa = __builtin_popcountll(a), pb = __builtin_popcountll(b); return pa != pb ? pa < pb : a < b; });
  return w;
}

// ------------------------------------------------------------------ parameter domains
static std::vector<Params> param_domain(int k, const str &pd, const strs &S, const str &prop) {
  std::vector<Params> v;
  long n = S.size();
  bool full = (pd == "full");
  auto P = [](long a, long b = 0, long c = 0) { Params p; p.a = a; p.b = b; p.c = c; return p; };
  if (k_bucketed(k)) {
    std::vector<long> bs = full ? std::vector<long>{2, 3, 4, 5, n - 1, n, n + 1, 4096} : std::vector<long>{2, 3, n, 4096};
    if (pd == "min") bs = {2, 4};
    if (pd == "minb") bs = {2, 4, n};          // min plus the single-bucket configuration (long in-bucket scans)
    if (prop == "C12") { bs.insert(bs.begin(), 1); bs.insert(bs.begin(), 0); }
    std::vector<long> seen;
    for (long b : bs) { if (b < 2 && prop != "C12") continue; if (b < 0) continue; if (std::find(seen.begin(), seen.end(), b) != seen.end()) continue; seen.push_back(b); v.push_back(P(b)); }
    // put the legal reference (2) first for C12
    if (prop == "C12") std::stable_sort(v.begin(), v.end(), [](const Params &x, const Params &y) { return (x.a == 2) > (y.a == 2); });
  } else if (k == K_RPDAC || k == K_XBW) v.push_back(P(0));
  else if (k == K_HASHHF || k == K_HASHRPF || k == K_HASHUFFDAC || k == K_HASHRPDAC) {
    std::vector<long> ov = full ? std::vector<long>{0, 1, 10, 50, 100, 400} : std::vector<long>{0, 10, 100};
    if (pd == "min" || pd == "minb") ov = {10};
    for (long o : ov) v.push_back(P(o));
  } else if (k == K_BLOCKS) {
    long total = 0; for (auto &s : S) total += s.size() + 1;
    // distinct partitions: a block closes when its accumulated size exceeds the cut size
    std::vector<long> cuts; std::set<str> parts;
    for (long cut = 0; cut <= total; cut++) {
      str sig; long acc = 0;
      for (auto &s : S) { acc += s.size() + 1; if (acc > cut) { sig += "|"; acc = 0; } else sig += "."; }
      if (parts.insert(sig).second) cuts.push_back(cut);
    }
    std::vector<long> ov = full ? std::vector<long>{0, 10, 100} : std::vector<long>{10};
    std::vector<long> th = full ? std::vector<long>{1, 2, 3, 8} : std::vector<long>{1, 2};
    if (pd == "min" || pd == "minb") { th = {1}; }
    if (!full && cuts.size() > 3) cuts = {cuts.front(), cuts[cuts.size() / 2], cuts.back()};
    for (long o : ov) for (long cu : cuts) for (long t : th) v.push_back(P(o, cu, t));
  } else if (k == K_FMINDEX) {
    if (full) {
      // (for C12 the reference vector is the first one: it must support substring search, so sampling 0 comes last)
      for (long bw : {1, 2, 3, 8, 64, 0}) { for (long bp : {2, 4, 20}) v.push_back(P(0, bp, bw)); for (long bp : {16, 32, 128}) v.push_back(P(1, bp, bw)); }
    } else if (pd == "min" || pd == "minb") { v.push_back(P(0, 4, 2)); }
    else { for (long bw : {0, 1, 2, 8}) v.push_back(P(0, 4, bw)); for (long bw : {0, 3}) v.push_back(P(1, 16, bw)); }
  }
  return v;
}
static strs sources_for(int k, const str &pd) {
  strs v = {"fresh", "gen:1", "own:1"};
  if (k == K_HASHHF || k == K_HASHRPF) { v.push_back("own:2"); v.push_back("own:3"); if (pd == "full") { v.push_back("gen:2"); v.push_back("gen:3"); } }
  if (pd != "min" && pd != "minb") v.push_back("gen2");
  return v;
}

// ------------------------------------------------------------------ unit = (set, palette, stretch)
struct Unit { setmask mask; int pal, stretch; int pre = 0; };

// ------------------------------------------------------------------ named families
// fibruns(d): for letter i < d ('a'+i) the runs c^1..c^n_i with n_i = round(20 * 1.272^i): the total weight of the letters grows by the
// golden ratio, so the Huffman / Hu-Tucker codeword of letter d-1-k is about k bits longer than that of the last letter and every other
// byte value (weight 1) gets a codeword longer than the 16-bit decoding chunk from d ~ 15 on (decoding subtrees, DecodingTree save/load).
// Four strings of rare bytes ("#", "#~", "~", x~x) exercise strings made of long codewords only.
static strs family_set(const str &fam, int depth) {
  strs S;
  if (fam == "fibruns") {
    double n = 20.0;
    for (int i = 0; i < depth; i++) { char c = (char)('a' + i); for (int l = 1; l <= (int)(n + 0.5); l++) S.push_back(str((size_t)l, c)); n *= 1.272; }
    char last = (char)('a' + depth - 1);
    S.push_back("#"); S.push_back("#~"); S.push_back("~"); S.push_back(str(1, last) + "~" + str(1, last));
  } else if (fam == "totals") {
    // totals(T): a dictionary whose text (strings + terminators) has exactly T bytes: {a, ab, bc^(T-7)} (one string a^(T-1) below 8).
    // Sweeping T over a contiguous range reaches every residue of the text length modulo the word, block and sampling sizes of the
    // succinct structures (bitmaps of len+1 / len+2 bits, suffix samples, RRR blocks), which subsets of a tiny universe only hit by chance.
    if (depth < 8) S.push_back(str((size_t)std::max(1, depth - 1), 'a'));
    else { S.push_back("a"); S.push_back("ab"); S.push_back("b" + str((size_t)(depth - 7), 'c')); }
  } else { fprintf(stderr, "unknown family %s\n", fam.c_str()); exit(2); }
  std::sort(S.begin(), S.end(), ult); S.erase(std::unique(S.begin(), S.end()), S.end());
  return S;
}
// queries for a family cell, derived from the set alone (so that a replay from the witness strings rebuilds them): the first and last
// three members, the shortest and longest member per leading byte, every member of <= 3 bytes, and absent neighbours
static strs family_queries(const strs &S) {
  strs q; std::set<str> seen;
  auto add = [&](const str &x) { if (!x.empty() && seen.insert(x).second) q.push_back(x); };
  for (size_t i = 0; i < S.size() && i < 3; i++) { add(S[i]); add(S[S.size() - 1 - i]); }
  std::map<uchar, std::pair<str, str>> per;
  for (auto &x : S) { auto &pr = per[(uchar)x[0]]; if (pr.first.empty() || x.size() < pr.first.size()) pr.first = x; if (x.size() > pr.second.size()) pr.second = x; }
  for (auto &kv : per) { add(kv.second.first); add(kv.second.second); add(kv.second.second + kv.second.second.substr(0, 1)); add(kv.second.second.substr(0, kv.second.second.size() / 2)); }
  for (auto &x : S) if (x.size() <= 3) add(x);
  add("##"); add("a~"); add("~~"); add(str(1, (char)0x7F)); add(str(1, (char)0x02)); add(str(1, (char)0xFE)); add(S[0] + "~");
  return q;
}
static Cell make_family_cell(const Scope &sc, int depth) {
  Cell cell; cell.pal = 0; cell.sigma = sc.sigma; cell.L = sc.L; cell.stretch = 1; cell.family = sc.family;
  cell.S = family_set(sc.family, depth);
  cell.Q = family_queries(cell.S);
  return cell;
}
static str rep_tag(int j) { char t[2] = {(char)('0' + j / 10), (char)('0' + j % 10)}; return str(t, 2); }
// queries of a cell whose strings carry a common prefix of `pre` bytes and/or `rep` group tags
static void shape_queries(Cell &cell, int pal, int pre, int rep) {
  if (pre > 0) {   // queries: the prefixed universe, the bare prefix and its neighbours, and a few un-prefixed ones
    str p((size_t)pre, (char)PALETTES[pal].b[0]);
    strs q2; for (auto &q : cell.Q) q2.push_back(p + q);
    q2.push_back(p); q2.push_back(p.substr(1)); q2.push_back(p + (char)PALETTES[pal].b[0]);
    for (size_t i = 0; i < cell.Q.size() && i < 6; i++) q2.push_back(cell.Q[i]);
    cell.Q = q2;
  }
  if (rep > 1) {   // the universe under the first, a middle and the last tag; the bare tags; a few untagged ones
    strs q2; std::set<str> seen;
    auto add = [&](const str &q) { if (seen.insert(q).second) q2.push_back(q); };
    for (int j : {0, rep / 2, rep - 1}) for (auto &q : cell.Q) add(rep_tag(j) + q);
    add(rep_tag(0)); add(rep_tag(rep - 1)); add(rep_tag(rep)); add("0");
    for (size_t i = 0; i < cell.Q.size() && i < 6; i++) add(cell.Q[i]);
    cell.Q = q2;
  }
  cell.pre = pre; cell.rep = rep;
}
static Cell make_cell(const Scope &sc, const strs &U, const Unit &u) {
  Cell cell; cell.pal = u.pal; cell.sigma = sc.sigma; cell.L = sc.L; cell.stretch = u.stretch;
  str pre((size_t)u.pre, (char)PALETTES[u.pal].b[0]);
  strs base;
  for (size_t i = 0; i < U.size(); i++) if ((u.mask >> i) & 1) base.push_back(pre + concretise(U[i], PALETTES[u.pal], u.stretch));
  if (sc.rep > 1) { if (sc.rep > 99) { fprintf(stderr, "rep <= 99\n"); exit(2); } for (int j = 0; j < sc.rep; j++) for (auto &b : base) cell.S.push_back(rep_tag(j) + b); }
  else cell.S = base;
  std::sort(cell.S.begin(), cell.S.end(), ult);
  cell.Q = query_universe(PALETTES[u.pal], sc.sigma, sc.L, u.stretch, sc.nf);
  shape_queries(cell, u.pal, u.pre, sc.rep);
  return cell;
}
