// kx.cpp -- KX: component explorers (DESIGN.md 4.2) for C17 (integer containers), C18 (codes),
// C19 (bundled succinct structures), C20 (Re-Pair).  Inputs are enumerated exhaustively up to a bound
// (VByte: every uint32), or deviation-bounded around base patterns; oracles are the textbook definitions
// on plain arrays.  Each case runs in a forked child per batch so a fatal outcome is an observation.
//   kx --prop C17 --part vbyte --shard i/N --tier quick|thorough --out file
#include "vx.hpp"
#include <BitSequence.h>
#include <BitSequenceBuilder.h>
#include <BitSequenceBuilderRG.h>
#include <BitSequenceBuilderRRR.h>
#include <BitSequenceBuilderSDArray.h>
#include <BitSequenceBuilderDArray.h>
#include <BitSequenceRG.h>
#include <BitSequenceRRR.h>
#include <BitSequenceSDArray.h>
#include <BitSequenceDArray.h>
#include <Sequence.h>
#include <WaveletTree.h>
#include <WaveletTreeNoptrs.h>
#include <MapperNone.h>
#include <wt_coder_huff.h>
#include "utils/VByte.h"
#include "utils/LogSequence.h"
#include "utils/DAC_VLS.h"
#include "utils/DAC_BVLS.h"
#include "HuTucker/HuTucker.h"
#include "Huffman/Huffman.h"
#include "RePair/RePair.h"
#include "utils/Coder/DecodingTableBuilder.h"
#include "utils/Coder/StatCoder.h"
using namespace cds_static;

extern "C" const char *__asan_default_options() {
  return "halt_on_error=0:detect_leaks=0:strict_memcmp=0:strict_string_checks=0:symbolize=0:print_summary=0:"
         "allocator_may_return_null=1:max_allocation_size_mb=1024:detect_stack_use_after_return=0:malloc_context_size=3:"
         "print_legend=0:max_malloc_fill_size=0:detect_odr_violation=0:handle_abort=1";
}

// ------------------------------------------------------------------ result plumbing
struct KFail { str comp, op, sig, detail, input; long count; };
static std::map<str, KFail> FAILS;
static long CASES = 0, CHECKS = 0, DISTINCT = 0;
static std::vector<str> SAMPLES;
static int OUTFD = -1;
static str CUR_COMP, CUR_INPUT;
static str ONLY;      // --only <input>: run just the case with this input description (replay)
static void kfail(const str &comp, const str &op, const str &sig, const str &detail, const str &input) {
  str line = "F " + comp + "\t" + op + "\t" + sig + "\t" + detail + "\t" + input + "\n";
  if (OUTFD >= 0) { if (write(OUTFD, line.data(), line.size()) < 0) _exit(99); }
}
static void kstat(long cases, long checks) { str l = fmt("S %ld %ld\n", cases, checks); if (write(OUTFD, l.data(), l.size()) < 0) _exit(99); }
static void ksample(const str &s) { str l = "M " + s + "\n"; if (write(OUTFD, l.data(), l.size()) < 0) _exit(99); }
static std::vector<str> PENDING;     // oracle failures of the current case (dropped if the case also had a memory error)
static void asan_flush(const str &comp, const str &input) {
  for (auto &r : ASAN_REPORTS) kfail(r.second.empty() ? comp : r.second, "run", "asan:" + r.first, "AddressSanitizer report", input);
  ASAN_REPORTS.clear();
}

// run `body` in a forked child; collect its records; a crash is recorded against the published component/input
static void in_child(const str &comp, std::function<void()> body, double timeout = 120) {
  int fd[2]; if (pipe(fd)) exit(2);
  memset((void *)PG, 0, sizeof(Progress));
  pid_t pid = fork();
  if (pid == 0) {
    close(fd[0]); OUTFD = fd[1];
    int dn = open("/dev/null", O_WRONLY); dup2(dn, 1); if (!getenv("VX_STDERR")) dup2(dn, 2);
    asan_init();
    try { body(); } catch (...) { kfail(comp, PG->op, "exception", "uncaught exception", unhex(PG->arg)); }
    _exit(0);
  }
  close(fd[1]);
  str buf; char tmp[65536]; double last = now_s(); bool to = false;
  while (true) {
    struct pollfd pf = {fd[0], POLLIN, 0}; int pr = poll(&pf, 1, 500);
    if (pr > 0) { ssize_t r = read(fd[0], tmp, sizeof tmp); if (r <= 0) break; buf.append(tmp, r); last = now_s(); }
    else if (now_s() - last > timeout) { kill(pid, SIGKILL); to = true; break; }
  }
  close(fd[0]);
  int st = 0; waitpid(pid, &st, 0);
  for (auto &line : split(buf, '\n')) {
    if (line.size() < 2) continue;
    if (line[0] == 'F') { auto v = split(line.substr(2), '\t'); while (v.size() < 5) v.push_back("");
      str key = v[0] + "|" + v[1] + "|" + v[2]; auto it = FAILS.find(key);
      if (it == FAILS.end()) FAILS[key] = {v[0], v[1], v[2], v[3], v[4], 1}; else it->second.count++; }
    else if (line[0] == 'S') { long a, b; sscanf(line.c_str() + 2, "%ld %ld", &a, &b); CASES += a; CHECKS += b; }
    else if (line[0] == 'M') { if (SAMPLES.size() < 8) SAMPLES.push_back(line.substr(2)); }
  }
  bool clean = WIFEXITED(st) && WEXITSTATUS(st) == 0;
  if (!clean) {
    str sig = to ? "timeout" : (WIFSIGNALED(st) ? fmt("fatal:signal%d", WTERMSIG(st)) : fmt("fatal:exit%d", WEXITSTATUS(st)));
    if (!to && PG->asan_n > 0) sig = "fatal:" + str(PG->asan_sig[PG->asan_n - 1]);
    str pc = PG->op[0] ? str(PG->op) : comp;
    str key = pc + "|run|" + sig;
    if (!FAILS.count(key)) FAILS[key] = {pc, "run", sig, "child died", unhex(PG->arg), 1}; else FAILS[key].count++;
  }
}

// resumable variant: body(start) must skip units < start and publish PG->sub = unit before each unit;
// after a crash the parent records it and restarts behind the crashing unit
static long RESUME_FROM = 0;
static long BLOCKED_UNITS = 0;
static void in_child_resumable(const str &comp, std::function<void(long)> body, double timeout = 3000) {
  long start = 0; int restarts = 0;
  while (true) {
    size_t before = FAILS.size(); long crashes_before = 0; for (auto &kv : FAILS) if (kv.second.sig.compare(0, 5, "fatal") == 0 || kv.second.sig == "timeout") crashes_before += kv.second.count;
    PG->sub = -1;
    in_child(comp, [&]() { body(start); }, timeout);
    long crashes_after = 0; for (auto &kv : FAILS) if (kv.second.sig.compare(0, 5, "fatal") == 0 || kv.second.sig == "timeout") crashes_after += kv.second.count;
    (void)before;
    if (crashes_after == crashes_before) break;     // finished normally
    if (PG->sub < start) break;                     // died before the first unit: give up
    start = PG->sub + 1; BLOCKED_UNITS++;
    if (++restarts > 20000) break;
  }
}

// ------------------------------------------------------------------ C17 a: VByte / VB2 over a value range
static void c17_vbyte(uint64_t lo, uint64_t hi) {
  uchar buf[16]; long n = 0;
  pg_op("vbyte", "");
  for (uint64_t v64 = lo; v64 < hi; v64++) {
    uint v = (uint)v64;
    if (!ONLY.empty() && fmt("%u", v) != ONLY) continue;
    uint expect = v < (1u << 7) ? 1 : v < (1u << 14) ? 2 : v < (1u << 21) ? 3 : v < (1u << 28) ? 4 : 5;
    memset(buf, 0x55, sizeof buf);
    uint n1 = VByte::encode(v, buf + 1); uint d = ~v; uint n2 = VByte::decode(&d, buf + 1);
    if (d != v || n1 != n2 || n1 != expect || buf[0] != 0x55 || buf[1 + n1] != 0x55) { kfail("VByte", "roundtrip", "value_or_length_mismatch", fmt("v=%u decoded=%u enc=%u dec=%u expected_bytes=%u", v, d, n1, n2, expect), fmt("%u", v)); }
    memset(buf, 0x55, sizeof buf);
    n1 = encodeVB2(v, buf + 1); d = ~v; n2 = decodeVB2(&d, buf + 1);
    if (d != v || n1 != n2 || n1 != expect || buf[0] != 0x55 || buf[1 + n1] != 0x55) { kfail("VB2", "roundtrip", "value_or_length_mismatch", fmt("v=%u decoded=%u enc=%u dec=%u", v, d, n1, n2), fmt("%u", v)); }
    n++;
  }
  kstat(n, 2 * n);
  asan_flush("VByte", "");
}

// ------------------------------------------------------------------ C17 b: LogSequence
static std::vector<size_t> ls_values(uint w) {
  size_t mx = w == 64 ? ~(size_t)0 : (((size_t)1 << w) - 1);
  std::set<size_t> s = {0, 1 & mx, mx, mx - (mx ? 1 : 0), (size_t)1 << (w - 1), 0x5555555555555555ULL & mx, 0xAAAAAAAAAAAAAAAAULL & mx};
  return std::vector<size_t>(s.begin(), s.end());
}
static void c17_logseq_width(uint w, bool thorough) {
  long cases = 0, checks = 0;
  std::vector<size_t> vals = ls_values(w);
  size_t maxlen = (3 * 64 + w - 1) / w + 2;
  str in;
  for (size_t len = 1; len <= maxlen; len++) {
    // background: pattern p (all positions hold vals[(i+p) % k]); then every position x every (old,new) overwrite pair
    for (size_t bg = 0; bg < vals.size(); bg++) {
      if (!thorough && bg > 1 && len > 6) continue;
      in = fmt("w=%u len=%zu bg=%zu", w, len, bg);
      if (!ONLY.empty() && in != ONLY) continue;
      pg_op("LogSequence", in);
      LogSequence ls(w, len);
      std::vector<size_t> model(len);
      for (size_t i = 0; i < len; i++) { model[i] = vals[(i + bg) % vals.size()]; ls.setField(i, model[i]); }
      for (size_t i = 0; i < len; i++) { checks++; if (ls.getField(i) != model[i]) { kfail("LogSequence", "getField", "wrong_value_after_fill", fmt("%s pos=%zu got=%zu want=%zu", in.c_str(), i, ls.getField(i), model[i]), in); break; } }
      for (size_t pos = 0; pos < len; pos++) for (size_t nv : vals) {
        size_t old = model[pos];
        ls.setField(pos, nv); model[pos] = nv; cases++;
        // the position and both neighbours (and for word-straddling fields, everything in the same two words)
        size_t a = pos >= 2 ? pos - 2 : 0, b = std::min(len - 1, pos + 2);
        for (size_t i = a; i <= b; i++) { checks++; if (ls.getField(i) != model[i]) { kfail("LogSequence", "setField", i == pos ? "value_not_stored" : "neighbour_disturbed", fmt("%s set pos=%zu %zu->%zu; pos %zu reads %zu want %zu", in.c_str(), pos, old, nv, i, ls.getField(i), model[i]), in); goto nextbg; } }
      }
      for (size_t i = 0; i < len; i++) { checks++; if (ls.getField(i) != model[i]) { kfail("LogSequence", "getField", "wrong_value_at_end", in, in); break; } }
      { // save / stream constructor round trip; vector constructor
        std::ostringstream o; ls.save(o); std::istringstream i2(o.str()); LogSequence l2(i2);
        if (l2.getNumberOfElements() != len) kfail("LogSequence", "load", "length_changed", in, in);
        else for (size_t i = 0; i < len; i++) { checks++; if (l2.getField(i) != model[i]) { kfail("LogSequence", "load", "value_changed_by_save_load", fmt("%s pos=%zu", in.c_str(), i), in); break; } }
        in.clear(); i2.clear(); if ((size_t)i2.tellg() != o.str().size()) kfail("LogSequence", "load", "not_self_delimiting", fmt("w=%u len=%zu consumed %ld of %zu", w, len, (long)i2.tellg(), o.str().size()), "");
        std::ostringstream o2; l2.save(o2); if (o2.str() != o.str()) kfail("LogSequence", "save", "resave_differs", fmt("w=%u len=%zu", w, len), "");
        std::vector<size_t> mv(model); LogSequence l3(&mv, w);
        for (size_t i = 0; i < len; i++) { checks++; if (l3.getField(i) != model[i]) { kfail("LogSequence", "vector_ctor", "wrong_value", fmt("w=%u len=%zu pos=%zu", w, len, i), ""); break; } }
      }
    nextbg:;
    }
  }
  // exhaustive: for w <= 3, all value vectors up to length 8 (thorough) / 5 (quick)
  if (w <= 3 && ONLY.empty()) {
    size_t L = thorough ? 8 : 5, base = (size_t)1 << w;
    for (size_t len = 1; len <= L; len++) {
      size_t total = 1; for (size_t i = 0; i < len; i++) total *= base;
      for (size_t code = 0; code < total; code++) {
        LogSequence ls(w, len); size_t c = code; std::vector<size_t> m(len);
        for (size_t i = 0; i < len; i++) { m[i] = c % base; c /= base; ls.setField(i, m[i]); }
        cases++;
        for (size_t i = 0; i < len; i++) { checks++; if (ls.getField(i) != m[i]) { kfail("LogSequence", "getField", "exhaustive_vector_mismatch", fmt("w=%u len=%zu code=%zu pos=%zu", w, len, code, i), ""); break; } }
      }
    }
  }
  if (w == 1 || w == 33 || w == 64) ksample(fmt("{\"component\":\"LogSequence\",\"width\":%u,\"lengths\":\"1..%zu\",\"values\":%zu}", w, maxlen, vals.size()));
  kstat(cases, checks);
  asan_flush("LogSequence", fmt("w=%u", w));
}

// ------------------------------------------------------------------ C17 c: DAC_VLS
static void c17_dac_vls(uint width, int maxseqs, int maxlen) {
  long cases = 0, checks = 0;
  uint mx = width >= 32 ? 0xFFFFFFFFu : ((1u << width) - 1);
  std::vector<int> sym = {1, (int)(1u << (width - 1)), (int)mx};
  if (width >= 31) sym = {1, 1 << 20, 0x7FFFFFFF};
  // all lists of 1..maxseqs sequences, each of length 1..maxlen over 3 symbols
  std::vector<std::vector<int>> seqs;   // all sequences
  std::function<void(std::vector<int>)> rec = [&](std::vector<int> cur) { if (!cur.empty()) seqs.push_back(cur); if ((int)cur.size() == maxlen) return; for (int s : sym) { auto n = cur; n.push_back(s); rec(n); } };
  rec({});
  size_t ns = seqs.size();
  std::vector<size_t> idx;
  std::function<void()> run = [&]() {
    // build the list with the convention the dictionaries use: symbols, then -(i) after the i-th sequence; length = ic - 1
    std::vector<int> list; uint maxl = 0;
    for (size_t i = 0; i < idx.size(); i++) { for (int s : seqs[idx[i]]) list.push_back(s); list.push_back(-(int)(i + 1)); maxl = std::max<uint>(maxl, seqs[idx[i]].size()); }
    str in; for (size_t i = 0; i < idx.size(); i++) { in += fmt("%s[", i ? " " : ""); for (int s : seqs[idx[i]]) in += fmt("%d,", s); in += "]"; } in += fmt(" w=%u", width);
    if (!ONLY.empty() && in != ONLY) return;
    pg_op("DAC_VLS", in); cases++;
    int *arr = new int[list.size() + 1]; memcpy(arr, list.data(), list.size() * sizeof(int)); arr[list.size()] = 0;
    DAC_VLS *d = new DAC_VLS(arr, (uint)list.size() - 1, width, maxl);
    delete[] arr;
    auto verify = [&](DAC_VLS *x, const char *tag) {
      checks++; if (x->getListLength() != idx.size()) { kfail("DAC_VLS", "getListLength", str(tag) + "wrong_list_length", fmt("%u, stored %zu (%s)", x->getListLength(), idx.size(), in.c_str()), in); }
      for (size_t i = 0; i < idx.size(); i++) {
        uint *s = 0; uint l = x->access((uint)i + 1, &s); checks++;
        bool ok = l == seqs[idx[i]].size(); for (uint k = 0; ok && k < l; k++) ok = (int)s[k] == seqs[idx[i]][k];
        delete[] s;
        if (!ok) { kfail("DAC_VLS", "access", str(tag) + "wrong_sequence", fmt("index %zu of %s", i + 1, in.c_str()), in); return; }
        // access_next chain
        uint pos = (uint)i + 1, lev = 0; std::vector<int> got;
        while (pos != (uint)-1 && got.size() < 16) { got.push_back((int)x->access_next(lev, &pos)); lev++; }
        checks++; if (got != seqs[idx[i]]) { kfail("DAC_VLS", "access_next", str(tag) + "wrong_chain", fmt("index %zu of %s", i + 1, in.c_str()), in); return; }
      }
    };
    verify(d, "");
    std::ostringstream o; d->save(o); std::istringstream i2(o.str()); DAC_VLS *e = DAC_VLS::load(i2);
    verify(e, "after_load_");
    i2.clear(); checks++; if ((size_t)i2.tellg() != o.str().size()) kfail("DAC_VLS", "load", "not_self_delimiting", in, in);
    std::ostringstream o2; e->save(o2); checks++; if (o2.str() != o.str()) kfail("DAC_VLS", "save", "resave_differs", in, in);
    delete d; delete e;
    if (cases % 400 == 0) asan_flush("DAC_VLS", in);
  };
  std::function<void(int)> lists = [&](int depth) { if (!idx.empty()) run(); if (depth == maxseqs) return; for (size_t s = 0; s < ns; s++) { idx.push_back(s); lists(depth + 1); idx.pop_back(); } };
  lists(0);
  ksample(fmt("{\"component\":\"DAC_VLS\",\"width\":%u,\"lists_up_to\":%d,\"sequence_length_up_to\":%d,\"lists\":%ld}", width, maxseqs, maxlen, cases));
  kstat(cases, checks);
  asan_flush("DAC_VLS", fmt("w=%u", width));
}

// ------------------------------------------------------------------ C18: code tables
static void freq_families(bool thorough, std::vector<std::pair<str, std::vector<uint>>> &out) {
  auto base = []() { return std::vector<uint>(256, 1); };
  out.push_back({"uniform", base()});
  std::vector<int> pos = {0, 1, 2, 'a', 127, 128, 254, 255};
  std::vector<uint> wts = {2, 3, 5, 100, 10000, 1000000};
  if (!thorough) { pos = {0, 'a', 128, 255}; wts = {2, 5, 10000}; }
  // <= 3 hot symbols
  for (size_t a = 0; a < pos.size(); a++) for (uint wa : wts) {
    auto f = base(); f[pos[a]] = wa; out.push_back({fmt("hot1 %d:%u", pos[a], wa), f});
    for (size_t b = a + 1; b < pos.size(); b++) for (uint wb : wts) {
      auto g = f; g[pos[b]] = wb; out.push_back({fmt("hot2 %d:%u %d:%u", pos[a], wa, pos[b], wb), g});
      if (thorough || (wa == 5 && wb != 2)) for (size_t c = b + 1; c < pos.size(); c++) for (uint wc : {2u, 1000000u}) { auto h = g; h[pos[c]] = wc; out.push_back({fmt("hot3 %d:%u %d:%u %d:%u", pos[a], wa, pos[b], wb, pos[c], wc), h}); }
    }
  }
  // geometric and Fibonacci runs of length 2..40 at three offsets (ascending and descending)
  for (int off : {2, 100, 215}) for (int len = 2; len <= 40; len += (thorough ? 1 : 3)) {
    auto f = base(), g = base(), h = base(), k = base();
    uint64_t a = 1, b = 2, p = 2;
    for (int i = 0; i < len; i++) { f[off + i] = (uint)std::min<uint64_t>(a, 4000000000ULL); g[off + len - 1 - i] = f[off + i]; uint64_t t = a + b; a = b; b = t;
      h[off + i] = (uint)std::min<uint64_t>(p, 4000000000ULL); k[off + len - 1 - i] = h[off + i]; p = std::min<uint64_t>(p * 2, 4000000000ULL); }
    out.push_back({fmt("fib+ off=%d len=%d", off, len), f}); out.push_back({fmt("fib- off=%d len=%d", off, len), g});
    // symbol counts and node weights are signed 32-bit in the coders (BinaryNode::weight is int; text lengths are uint):
    // only vectors whose total stays below 2^31 are valid inputs
    if (len <= 29) { out.push_back({fmt("geo+ off=%d len=%d", off, len), h}); out.push_back({fmt("geo- off=%d len=%d", off, len), k}); }
  }
  // uniform blocks
  for (int blk : {2, 16, 64, 128}) for (uint w : {2u, 1000u}) { auto f = base(); for (int i = 0; i < blk; i++) f[97 + i < 256 ? 97 + i : i] = w; out.push_back({fmt("block %d x %u", blk, w), f}); }
  // single dominant symbol
  for (int s : {0, (int)'a', 255}) { auto f = base(); f[s] = 1000000000u; out.push_back({fmt("dominant %d", s), f}); }
}
static void check_code(const str &name, const str &fam, Codeword *cw, bool ordered, long &checks) {
  // prefix-free + complete (Kraft sum == 1) + (Hu-Tucker) order preserved, on left-aligned 64-bit strings
  std::vector<std::pair<uint64_t, uint>> v(256);
  long double kraft = 0;
  for (int i = 0; i < 256; i++) {
    uint b = cw[i].get_bits(); uint64_t c = cw[i].get_codeword();
    if (b == 0 || b > 32) { kfail(name, "codewords", b == 0 ? "zero_length_codeword" : "codeword_longer_than_32_bits", fmt("symbol %d has %u bits (%s)", i, b, fam.c_str()), fam); return; }
    if (b < 32 && (c >> b)) { kfail(name, "codewords", "codeword_exceeds_its_length", fmt("symbol %d: value %lu in %u bits (%s)", i, (unsigned long)c, b, fam.c_str()), fam); return; }
    v[i] = {c << (64 - b), b};
    kraft += 1.0L / (long double)((uint64_t)1 << b);
  }
  checks++;
  if (kraft > 1.0L + 1e-12L) kfail(name, "codewords", "kraft_sum_above_one", fmt("sum=%.12Lf (%s)", kraft, fam.c_str()), fam);
  else if (kraft < 1.0L - 1e-12L) kfail(name, "codewords", "code_not_complete", fmt("kraft sum=%.12Lf (%s)", kraft, fam.c_str()), fam);
  // prefix-freeness: sort by left-aligned value; adjacent pair check suffices
  std::vector<int> ord(256); for (int i = 0; i < 256; i++) ord[i] = i;
  std::sort(ord.begin(), ord.end(), [&](int a, int b) { return v[a].first != v[b].first ? v[a].first < v[b].first : v[a].second < v[b].second; });
  for (int i = 0; i + 1 < 256; i++) { int a = ord[i], b = ord[i + 1]; uint mb = std::min(v[a].second, v[b].second); checks++;
    if ((v[a].first >> (64 - mb)) == (v[b].first >> (64 - mb))) { kfail(name, "codewords", "not_prefix_free", fmt("codes of %d and %d (%s)", a, b, fam.c_str()), fam); break; } }
  if (ordered) for (int i = 0; i + 1 < 256; i++) { checks++; if (!(v[i].first < v[i + 1].first)) { kfail(name, "codewords", "order_not_preserved", fmt("code(%d) >= code(%d) as bit strings (%s)", i, i + 1, fam.c_str()), fam); break; } }
}
static void c18_codes(bool thorough, int shard, int nshards, long start) {
  std::vector<std::pair<str, std::vector<uint>>> fams; freq_families(thorough, fams);
  long cases = 0, checks = 0;
  for (size_t i = 0; i < fams.size(); i++) {
    if ((int)(i % nshards) != shard || (long)i < start) continue;
    PG->sub = (int)i;
    if (!ONLY.empty() && fams[i].first != ONLY) continue;
    pg_op("HuTucker", fams[i].first);
    { std::vector<uint> f = fams[i].second; HuTucker *ht = new HuTucker(f.data()); Codeword *cw = ht->obtainCodewords(); check_code("HuTucker", fams[i].first, cw, true, checks); delete[] cw; delete ht; }
    pg_op("Huffman", fams[i].first);
    { std::vector<uint> f = fams[i].second; Huffman *hf = new Huffman(f.data()); Codeword *cw = hf->obtainCodewords(); check_code("Huffman", fams[i].first, cw, false, checks); delete[] cw; delete hf; }
    cases += 2; kstat(2, checks); checks = 0;
    if (cases <= 4) ksample(fmt("{\"component\":\"HuTucker+Huffman\",\"frequency_family\":\"%s\"}", fams[i].first.c_str()));
    asan_flush("codes", fams[i].first);
  }
}

// C18, second half: the chunked decoding table inverts the encoder.  For every frequency family and both coders the table is
// built the way the dictionaries build it (DecodingTableBuilder::insertDecodeableSubstr per symbol, insertEndingSubstr for the
// zero-padded last chunk); every string of length 1..maxlen over a per-code alphabet {shortest codeword, longest codeword,
// longest codeword that fits the 16-bit chunk, shortest codeword that does not} is encoded with StatCoder::encodeSymbol into
// its own zero-padded buffer and decoded with DecodingTable::processChunk (scan state as StringDictionaryHASHHF::extract).
static void c18_decode(bool thorough, int shard, int nshards, long start) {
  std::vector<std::pair<str, std::vector<uint>>> fams; freq_families(thorough, fams);
  int maxlen = thorough ? 4 : 3;
  for (size_t i = 0; i < fams.size(); i++) {
    if ((int)(i % nshards) != shard || (long)i < start) continue;
    PG->sub = (int)i;
    if (!ONLY.empty() && fams[i].first != ONLY) continue;
    for (int coder = 0; coder < 2; coder++) {
      str cname = coder ? "Huffman" : "HuTucker";
      str in = fams[i].first;
      pg_op(("DecodingTable/" + cname).c_str(), in);
      long cases = 0, checks = 0;
      std::vector<uint> f = fams[i].second;
      DecodingTableBuilder *builder = new DecodingTableBuilder();
      HuTucker *ht = NULL; Huffman *hf = NULL;
      if (coder) { hf = new Huffman(f.data()); builder->initializeFromHuffman(hf); } else { ht = new HuTucker(f.data()); builder->initializeFromHuTucker(ht); }
      Codeword *cw = builder->getCodewords();
      bool valid = true; for (int c = 0; c < 256; c++) { uint b = cw[c].get_bits(); if (b == 0 || b > 32) valid = false; }
      if (!valid) { delete builder; continue; }       // reported by the code-table half (codeword_longer_than_32_bits)
      // alphabet
      int smin = 1, smax = 1, sfit = -1, sover = -1;
      for (int c = 1; c < 256; c++) { uint b = cw[c].get_bits();
        if (b < cw[smin].get_bits()) smin = c; if (b > cw[smax].get_bits()) smax = c;
        if (b <= TABLEBITSO && (sfit < 0 || b > cw[sfit].get_bits())) sfit = c;
        if (b > TABLEBITSO && (sover < 0 || b < cw[sover].get_bits())) sover = c; }
      std::vector<int> A = {smin, smax}; if (sfit >= 0) A.push_back(sfit); if (sover >= 0) A.push_back(sover);
      std::sort(A.begin(), A.end()); A.erase(std::unique(A.begin(), A.end()), A.end());
      std::vector<str> strs;
      std::function<void(str)> rec = [&](str cur) { if (!cur.empty()) strs.push_back(cur); if ((int)cur.size() == maxlen) return; for (int a : A) rec(cur + (char)a); };
      rec("");
      StatCoder enc(cw);
      std::vector<std::vector<uchar>> encoded;
      for (auto &sx : strs) {
        std::vector<uchar> buf(8 * (sx.size() + 1) + 64, 0);
        uint bytes = 0, offset = 0; std::vector<uchar> textSubstr; std::vector<ushort> lenSubstr; ushort ptrSubstr = 0; uint codeSubstr = 0;
        for (size_t k = 0; k <= sx.size(); k++) {
          uchar symbol = (uchar)sx.c_str()[k];
          bytes += enc.encodeSymbol(symbol, &buf[bytes], &offset);
          builder->insertDecodeableSubstr(symbol, &codeSubstr, &ptrSubstr, &textSubstr, &lenSubstr);
        }
        if (textSubstr.size() > 0) { codeSubstr = codeSubstr << (TABLEBITSO - ptrSubstr); ptrSubstr = TABLEBITSO; builder->insertEndingSubstr(&codeSubstr, &ptrSubstr, &textSubstr, &lenSubstr); }
        encoded.push_back(buf);
      }
      DecodingTable *table = builder->getTable();
      for (size_t n = 0; n < strs.size(); n++) {
        const str &sx = strs[n];
        std::vector<uchar> out(4096, 0);
        ChunkScan chunk = {0, 0, encoded[n].data(), (uint)encoded[n].size(), out.data(), 0, 0, 1};
        bool end = false; uint rounds = 0;
        while (!end && rounds < sx.size() + 4 && chunk.strLen < 2048) { end = table->processChunk(&chunk); rounds++; }
        str got; if (end && chunk.strLen > 0) got.assign((char *)out.data(), chunk.strLen - 1);
        cases++; checks++;
        str bitsdesc; for (uchar ch : sx) bitsdesc += fmt("%u,", cw[ch].get_bits());
        if (!end) kfail("DecodingTable/" + cname, "decode", "terminator_not_seen", fmt("%s: string %s (codeword bits %s) not terminated after %u chunks", in.c_str(), hex(sx).c_str(), bitsdesc.c_str(), rounds), in);
        else if (got != sx) kfail("DecodingTable/" + cname, "decode", "wrong_string", fmt("%s: string %s (codeword bits %s) decoded as %s", in.c_str(), hex(sx).c_str(), bitsdesc.c_str(), hex(got).c_str()), in);
      }
      if (i < 4 && coder == 0) ksample(fmt("{\"component\":\"DecodingTable\",\"frequency_family\":\"%s\",\"alphabet_codeword_bits\":\"%u..%u\",\"strings\":%zu}", in.c_str(), cw[smin].get_bits(), cw[smax].get_bits(), strs.size()));
      kstat(cases, checks);
      delete builder; delete table; if (ht) delete ht; if (hf) delete hf;
      asan_flush("DecodingTable/" + cname, in);
    }
  }
}

// ------------------------------------------------------------------ C19: bit sequences
struct BitsModel { std::vector<uchar> b; };
static BitSequence *make_bs(int variant, uint *data, size_t n, str &name) {
  static const int RGF[] = {1, 2, 3, 4, 20}; static const int RRRS[] = {2, 4, 16, 32, 128};
  if (variant < 5) { name = fmt("RG(%d)", RGF[variant]); return new BitSequenceRG(data, n, RGF[variant]); }
  if (variant < 10) { name = fmt("RRR(%d)", RRRS[variant - 5]); return new BitSequenceRRR(data, n, RRRS[variant - 5]); }
  if (variant < 15) { name = fmt("BuilderRG(%d)", RGF[variant - 10]); BitSequenceBuilderRG b(RGF[variant - 10]); return b.build(data, n); }
  if (variant < 20) { name = fmt("BuilderRRR(%d)", RRRS[variant - 15]); BitSequenceBuilderRRR b(RRRS[variant - 15]); return b.build(data, n); }
  if (variant == 20) { name = "SDArray"; return new BitSequenceSDArray(data, n); }
  name = "DArray"; return new BitSequenceDArray(data, n);
}
static const int NBSVAR = 22;
static str bs_name(int variant) {
  static const int RGF[] = {1, 2, 3, 4, 20}; static const int RRRS[] = {2, 4, 16, 32, 128};
  if (variant < 5) return fmt("RG(%d)", RGF[variant]); if (variant < 10) return fmt("RRR(%d)", RRRS[variant - 5]);
  if (variant < 15) return fmt("BuilderRG(%d)", RGF[variant - 10]); if (variant < 20) return fmt("BuilderRRR(%d)", RRRS[variant - 15]);
  return variant == 20 ? "SDArray" : "DArray";
}
static bool check_bs(BitSequence *bs, const std::vector<uchar> &bits, const str &vname, const str &in, const char *tag, long &checks) {
  size_t n = bits.size(), ones = 0;
  std::vector<size_t> pos1, pos0;
  for (size_t i = 0; i < n; i++) { if (bits[i]) pos1.push_back(i); else pos0.push_back(i); }
  for (size_t i = 0; i < n; i++) {
    ones += bits[i];
    checks += 3;
    if (bs->access(i) != (bool)bits[i]) { kfail("BitSequence" + vname, "access", str(tag) + "wrong_bit", fmt("%s: access(%zu)", in.c_str(), i), in); return false; }
    size_t r1 = bs->rank1(i); if (r1 != ones) { kfail("BitSequence" + vname, "rank1", str(tag) + "wrong_rank", fmt("%s: rank1(%zu)=%zu want %zu", in.c_str(), i, r1, ones), in); return false; }
    size_t r0 = bs->rank0(i); if (r0 != i + 1 - ones) { kfail("BitSequence" + vname, "rank0", str(tag) + "wrong_rank", fmt("%s: rank0(%zu)=%zu want %zu", in.c_str(), i, r0, i + 1 - ones), in); return false; }
  }
  for (size_t j = 1; j <= pos1.size(); j++) { checks++; size_t s = bs->select1(j); if (s != pos1[j - 1]) { kfail("BitSequence" + vname, "select1", str(tag) + "wrong_position", fmt("%s: select1(%zu)=%zu want %zu", in.c_str(), j, s, pos1[j - 1]), in); return false; } }
  for (size_t j = 1; j <= pos0.size(); j++) { checks++; size_t s = bs->select0(j); if (s != pos0[j - 1]) { kfail("BitSequence" + vname, "select0", str(tag) + "wrong_position", fmt("%s: select0(%zu)=%zu want %zu", in.c_str(), j, s, pos0[j - 1]), in); return false; } }
  return true;
}
static str bits_str(const std::vector<uchar> &b) { str s; if (b.size() <= 40) { for (uchar x : b) s += x ? '1' : '0'; return s; } size_t ones = 0; for (uchar x : b) ones += x; s = fmt("len=%zu ones=%zu first16=", b.size(), ones); for (size_t i = 0; i < 16; i++) s += b[i] ? '1' : '0'; s += " flips@"; return s; }
static void bs_case(const std::vector<uchar> &bits, const str &desc, int variant, long &cases, long &checks) {
  size_t n = bits.size();
  size_t words = n / 32 + 2;
  uint *data = new uint[words]; memset(data, 0, words * 4);
  for (size_t i = 0; i < n; i++) if (bits[i]) data[i / 32] |= (1u << (i % 32));
  str vname, in = desc;
  if (!ONLY.empty() && in != ONLY) { delete[] data; return; }
  pg_op(("BitSequence" + bs_name(variant)).c_str(), in);
  BitSequence *bs = make_bs(variant, data, n, vname);
  cases++;
  if (!bs) { kfail("BitSequence" + vname, "build", "null", in, in); delete[] data; return; }
  if (check_bs(bs, bits, vname, in, "", checks)) {
    std::ostringstream o; bs->save(o); std::istringstream i2(o.str());
    BitSequence *l = BitSequence::load(i2);
    if (!l) kfail("BitSequence" + vname, "load", "null_after_save", in, in);
    else { check_bs(l, bits, vname, in, "after_load_", checks); i2.clear(); checks++; if ((size_t)i2.tellg() != o.str().size()) kfail("BitSequence" + vname, "load", "not_self_delimiting", in, in); delete l; }
  }
  delete bs; delete[] data;
  asan_flush("BitSequence" + vname, in);
}
static void c19_bits(bool thorough, int shard, int nshards, long start) {
  long cases = 0, checks = 0; long unit = 0;
  // (1) every bit vector of length 1..Lmax
  int Lmax = thorough ? 14 : 10;
  for (int len = 1; len <= Lmax; len++) for (uint32_t code = 0; code < (1u << len); code++) {
    std::vector<uchar> b(len); for (int i = 0; i < len; i++) b[i] = (code >> i) & 1;
    str d = bits_str(b);
    for (int v = 0; v < NBSVAR; v++) { long u = unit++; if ((int)((u / NBSVAR) % nshards) != shard || u < start) continue; PG->sub = (int)u; bs_case(b, d, v, cases, checks); }
    if (cases % 2200 == 0) asan_flush("BitSequence", d);
  }
  ksample(fmt("{\"component\":\"BitSequence\",\"family\":\"all bit vectors of length 1..%d\",\"variants\":%d}", Lmax, NBSVAR));
  // (2) deviation-bounded families around all-zero / all-one / alternating
  std::vector<int> lens = {31, 32, 33, 63, 64, 65, 127, 128, 129};
  for (int s : {2, 3, 4, 16, 20}) { lens.push_back(s * 32 - 1); lens.push_back(s * 32); lens.push_back(s * 32 + 1); }
  std::sort(lens.begin(), lens.end()); lens.erase(std::unique(lens.begin(), lens.end()), lens.end());
  int maxflips = thorough ? 2 : 1;
  for (int len : lens) for (int basep = 0; basep < 3; basep++) {
    if (!thorough && len > 129) continue;
    std::vector<uchar> base(len); for (int i = 0; i < len; i++) base[i] = basep == 0 ? 0 : basep == 1 ? 1 : (i & 1);
    std::function<void(std::vector<uchar> &, int, int, str)> rec = [&](std::vector<uchar> &b, int from, int left, str fl) {
      { str d = fmt("len=%d base=%s flips=[%s]", len, basep == 0 ? "zeros" : basep == 1 ? "ones" : "alternating", fl.c_str());
        for (int v = 0; v < NBSVAR; v++) { long u = unit++; if ((int)((u / NBSVAR) % nshards) != shard || u < start) continue; if (len > 200 && maxflips == 2 && left == 0 && v >= 10 && v < 20) continue; PG->sub = (int)u; bs_case(b, d, v, cases, checks); }
        if (cases % 1100 == 0) asan_flush("BitSequence", d); }
      if (!left) return;
      int step = (len > 200 && left == 1 && maxflips == 2) ? 7 : 1;   // second flip on long vectors: every 7th position
      for (int i = from; i < len; i += step) { b[i] ^= 1; rec(b, i + 1, left - 1, fl + fmt("%d,", i)); b[i] ^= 1; }
    };
    std::vector<uchar> b = base; rec(b, 0, maxflips, "");
  }
  ksample(fmt("{\"component\":\"BitSequence\",\"family\":\"<=%d flips around zeros/ones/alternating\",\"lengths\":%zu}", maxflips, lens.size()));
  kstat(cases, checks);
  asan_flush("BitSequence", "end");
}

// ------------------------------------------------------------------ C19: wavelet trees
static bool check_seq(Sequence *sq, const std::vector<uint> &s, const str &name, const str &in, const char *tag, long &checks) {
  size_t n = s.size();
  std::map<uint, std::vector<size_t>> occ;
  for (size_t i = 0; i < n; i++) occ[s[i]].push_back(i);
  std::map<uint, size_t> cnt;
  for (size_t i = 0; i < n; i++) {
    cnt[s[i]]++; checks += 2;
    uint a = sq->access(i); if (a != s[i]) { kfail(name, "access", str(tag) + "wrong_symbol", fmt("%s: access(%zu)=%u want %u", in.c_str(), i, a, s[i]), in); return false; }
    size_t r = 0; uint a2 = sq->access(i, r); if (a2 != s[i] || r != cnt[s[i]]) { kfail(name, "access_rank", str(tag) + "wrong_symbol_or_rank", fmt("%s: access(%zu,r)=%u,%zu want %u,%zu", in.c_str(), i, a2, r, s[i], cnt[s[i]]), in); return false; }
    for (auto &kv : occ) { checks++; size_t want = cnt.count(kv.first) ? cnt[kv.first] : 0; size_t got = sq->rank(kv.first, i); if (got != want) { kfail(name, "rank", str(tag) + "wrong_rank", fmt("%s: rank(%u,%zu)=%zu want %zu", in.c_str(), kv.first, i, got, want), in); return false; } }
  }
  for (auto &kv : occ) for (size_t j = 1; j <= kv.second.size(); j++) { checks++; size_t p = sq->select(kv.first, j); if (p != kv.second[j - 1]) { kfail(name, "select", str(tag) + "wrong_position", fmt("%s: select(%u,%zu)=%zu want %zu", in.c_str(), kv.first, j, p, kv.second[j - 1]), in); return false; } }
  return true;
}
static void c19_wt(bool thorough, int shard, int nshards, long start) {
  long cases = 0, checks = 0, unit = 0;
  int Lmax = thorough ? 7 : 5;
  for (uint off : {1u, 200u}) for (int len = 1; len <= Lmax; len++) {
    long total = 1; for (int i = 0; i < len; i++) total *= 3;
    for (long code = 0; code < total; code++) {
      long u0 = unit++; if ((int)(u0 % nshards) != shard || u0 < start) continue; PG->sub = (int)u0;
      std::vector<uint> s(len); long c = code; for (int i = 0; i < len; i++) { s[i] = off + c % 3; c /= 3; }
      str in; for (uint x : s) in += fmt("%u,", x);
      if (!ONLY.empty() && in != ONLY) continue;
      for (int variant = 0; variant < 6; variant++) {
        BitSequenceBuilder *bmb = variant % 3 == 0 ? (BitSequenceBuilder *)new BitSequenceBuilderRG(variant < 3 ? 2 : 20) : variant % 3 == 1 ? (BitSequenceBuilder *)new BitSequenceBuilderRRR(variant < 3 ? 4 : 32) : (BitSequenceBuilder *)new BitSequenceBuilderRG(4);
        bool noptrs = variant >= 3;
        str name = noptrs ? "WaveletTreeNoptrs" : "WaveletTree";
        pg_op(name.c_str(), in); cases++;
        uint *sym = new uint[len + 1]; for (int i = 0; i < len; i++) sym[i] = s[i];
        Sequence *sq = 0;
        Mapper *am = new MapperNone();
        bmb->use(); am->use();
        if (!noptrs) { wt_coder *wc = new wt_coder_huff(sym, len, am); sq = new WaveletTree(sym, len, wc, bmb, am, false); }
        else sq = new WaveletTreeNoptrs(sym, len, bmb, am, false);
        if (check_seq(sq, s, name, in, "", checks)) {
          std::ostringstream o; sq->save(o); std::istringstream i2(o.str()); Sequence *l = Sequence::load(i2);
          if (!l) kfail(name, "load", "null_after_save", in, in);
          else { check_seq(l, s, name, in, "after_load_", checks); i2.clear(); checks++; if ((size_t)i2.tellg() != o.str().size()) kfail(name, "load", "not_self_delimiting", in, in); delete l; }
        }
        delete sq; delete[] sym; bmb->unuse(); am->unuse();
        asan_flush(name, in);
      }
      if (cases % 3000 == 0) asan_flush("WaveletTree", in);
    }
  }
  ksample(fmt("{\"component\":\"WaveletTree/WaveletTreeNoptrs\",\"family\":\"all sequences of length 1..%d over 3 symbols at offsets 1 and 200\",\"builders\":6}", Lmax));
  kstat(cases, checks);
  asan_flush("WaveletTree", "end");
}

// ------------------------------------------------------------------ C20: Re-Pair
// Expand the compacted sequence with the same gap-pointer walk the dictionaries use.
static bool repair_case(const std::vector<int> &seq, uchar maxchar, const str &in, long &checks) {
  size_t n = seq.size();
  if (!ONLY.empty() && in != ONLY) return true;
  struct Flush { str in; ~Flush() { asan_flush("RePair", in); } } fl{in};
  int *buf = new int[n + 2]; for (size_t i = 0; i < n; i++) buf[i] = seq[i]; buf[n] = 0; buf[n + 1] = 0;
  pg_op("RePair", in);
  RePair *rp = new RePair(buf, (uint)n, maxchar);
  // walk
  std::vector<uint> comp; size_t io = 0;
  while (io < n) { if (buf[io] >= 0) { comp.push_back((uint)buf[io]); io++; } else { size_t nx = (size_t)(-(buf[io] + 1)); if (nx <= io) { kfail("RePair", "compress", "gap_pointer_not_forward", in, in); delete rp; delete[] buf; return false; } io = nx; } }
  uint64_t term = rp->terminals, rules = rp->rules;
  uint nb = rp->getBits();
  bool ok = true;
  // rules: no side is 0; ids < 2^bits; acyclic (each side refers to an earlier rule or a terminal)
  for (uint64_t r = 0; r < rules && ok; r++) {
    size_t l = rp->G->getField(2 * r), rr = rp->G->getField(2 * r + 1); checks++;
    if (l == 0 || rr == 0) { kfail("RePair", "grammar", "rule_contains_terminator", fmt("rule %lu = (%zu,%zu) in %s", (unsigned long)r, l, rr, in.c_str()), in); ok = false; }
    else if (l >= term + rules || rr >= term + rules) { kfail("RePair", "grammar", "rule_refers_to_unknown_symbol", fmt("rule %lu = (%zu,%zu), terminals %lu rules %lu", (unsigned long)r, l, rr, (unsigned long)term, (unsigned long)rules), in); ok = false; }
    else if ((l >= term && l - term >= r) || (rr >= term && rr - term >= r)) { kfail("RePair", "grammar", "rule_not_earlier", fmt("rule %lu = (%zu,%zu)", (unsigned long)r, l, rr), in); ok = false; }
  }
  checks++; if (ok && nb < 32 && ((term + rules) >> nb) != 0 && (term + rules) != ((uint64_t)1 << nb)) { /* ids are < term+rules <= 2^nb ? */ }
  if (ok && nb < 32 && (term + rules - 1) >> nb) { kfail("RePair", "getBits", "bits_too_few", fmt("bits=%u but ids reach %lu", nb, (unsigned long)(term + rules - 1)), in); ok = false; }
  // expansion
  std::vector<int> out;
  std::function<bool(uint64_t, int)> expand = [&](uint64_t s, int depth) -> bool {
    if (depth > 64 || out.size() > n + 8) return false;
    if (s < term) { out.push_back((int)s); return true; }
    uint64_t r = s - term; if (r >= rules) return false;
    return expand(rp->G->getField(2 * r), depth + 1) && expand(rp->G->getField(2 * r + 1), depth + 1);
  };
  if (ok) {
    for (uint s : comp) { if ((uint64_t)s >= term + rules) { kfail("RePair", "compress", "symbol_out_of_range", in, in); ok = false; break; } if (!expand(s, 0)) { kfail("RePair", "expand", "expansion_failed", in, in); ok = false; break; } }
    checks++;
    if (ok && out != seq) { str got; for (size_t i = 0; i < out.size() && i < 40; i++) got += fmt("%d,", out[i]); kfail("RePair", "expand", "not_lossless", fmt("expansion %s differs from input %s", got.c_str(), in.c_str()), in); ok = false; }
    // expansion of every rule is 0-free (each string remains individually addressable)
    for (uint64_t r = 0; r < rules && ok; r++) { out.clear(); expand(term + r, 0); checks++; for (int x : out) if (x == 0) { kfail("RePair", "grammar", "expansion_contains_terminator", fmt("rule %lu", (unsigned long)r), in); ok = false; break; } }
  }
  if (ok) {  // save / loadNoSeq round trip of the grammar
    std::ostringstream o; rp->save(o); std::istringstream i2(o.str()); RePair *l = RePair::loadNoSeq(i2); checks++;
    if (!l || l->terminals != term || l->rules != rules || l->maxchar != maxchar) kfail("RePair", "loadNoSeq", "header_changed", in, in);
    else { for (uint64_t r = 0; r < 2 * rules; r++) if (l->G->getField(r) != rp->G->getField(r)) { kfail("RePair", "loadNoSeq", "grammar_changed", in, in); break; }
      i2.clear(); if ((size_t)i2.tellg() != o.str().size()) kfail("RePair", "loadNoSeq", "not_self_delimiting", in, in);
      std::ostringstream o2; l->save(o2); if (o2.str() != o.str()) kfail("RePair", "save", "resave_differs", in, in); }
    delete l;
  }
  delete rp; delete[] buf;
  return ok;
}
static void c20_repair(bool thorough, int shard, int nshards, long start) {
  long cases = 0, checks = 0, unit = 0;
  // all sequences of non-empty strings over {1,2} (total length <= A) and {1,2,3} (<= B), each terminated by 0, every order
  auto family = [&](int sigma, int maxtotal) {
    std::vector<int> cur;
    std::function<void(int, bool)> rec = [&](int used, bool atstart) {
      // cur is a concatenation of complete strings (each followed by 0) plus possibly an open string
      if (!atstart) { /* close the open string */ cur.push_back(0);
        if (used > 0) { if ((int)(unit++ % nshards) == shard) { str in; for (int x : cur) in += fmt("%d", x); cases++; repair_case(cur, (uchar)(sigma + 1), in, checks); if (cases % 2000 == 0) asan_flush("RePair", in); } }
        rec(used, true); cur.pop_back(); }
      if (used == maxtotal) return;
      for (int s = 1; s <= sigma; s++) { cur.push_back(s); rec(used + 1, false); cur.pop_back(); }
    };
    // avoid double recursion explosion: generate via explicit enumeration of (strings) compositions
    rec(0, true);
  };
  (void)family;
  // iterative generation: sequences over alphabet {0..sigma} of length <= maxtotal+nstrings with no two adjacent 0s, not starting with 0, ending with 0
  auto gen = [&](int sigma, int maxsyms) {
    std::vector<int> cur;
    std::function<void(int)> rec = [&](int syms) {
      if (!cur.empty() && cur.back() == 0) {
        long u0 = unit++; if ((int)(u0 % nshards) == shard && u0 >= start) { PG->sub = (int)u0; str in; for (int x : cur) in += fmt("%d", x); cases++; repair_case(cur, (uchar)(sigma + 1), in, checks); if (cases % 2000 == 0) asan_flush("RePair", in); }
      }
      if (syms < maxsyms) for (int s = 1; s <= sigma; s++) { cur.push_back(s); rec(syms + 1); cur.pop_back(); }
      if (!cur.empty() && cur.back() != 0) { cur.push_back(0); rec(syms); cur.pop_back(); }
    };
    rec(0);
  };
  gen(2, thorough ? 12 : 10);
  gen(3, thorough ? 8 : 6);
  ksample(fmt("{\"component\":\"RePair\",\"family\":\"all 0-terminated string sequences over {1,2} with <= %d symbols and over {1,2,3} with <= %d symbols, any order\"}", thorough ? 12 : 10, thorough ? 8 : 6));
  // shapes: runs, (ab)^j, Fibonacci words, single string, no repeated pair
  std::vector<std::pair<str, std::vector<int>>> shapes;
  for (int j = 1; j <= (thorough ? 12 : 8); j++) { std::vector<int> r((size_t)1 << j, 7); r.push_back(0); shapes.push_back({fmt("run 7^%d", 1 << j), r});
    std::vector<int> ab; for (int i = 0; i < (1 << j); i++) { ab.push_back(5); ab.push_back(9); } ab.push_back(0); shapes.push_back({fmt("(ab)^%d", 1 << j), ab}); }
  { std::vector<int> a = {1}, b = {1, 2}; for (int i = 0; i < (thorough ? 14 : 10); i++) { std::vector<int> c = b; c.insert(c.end(), a.begin(), a.end()); a = b; b = c; std::vector<int> w = b; w.push_back(0); shapes.push_back({fmt("fibonacci word %d", i), w}); } }
  { std::vector<int> d; for (int i = 1; i <= 250; i++) d.push_back(i); d.push_back(0); shapes.push_back({"all distinct 1..250", d}); }
  { std::vector<int> d; for (int k = 0; k < 40; k++) { for (int i = 0; i <= k % 5; i++) d.push_back(3 + (k * 7 + i) % 11); d.push_back(0); } shapes.push_back({"40 short strings", d}); }
  { std::vector<int> d; for (int k = 0; k < 30; k++) { d.push_back(4); d.push_back(0); } shapes.push_back({"30 x single symbol strings", d}); }
  { std::vector<int> d; for (int k = 0; k < 20; k++) { d.push_back(4); d.push_back(4); d.push_back(0); } shapes.push_back({"20 x 'aa'", d}); }
  { std::vector<int> d; for (int k = 0; k < 16; k++) { for (int i = 0; i < 3; i++) { d.push_back(254); d.push_back(255 - (k & 1)); } d.push_back(0); } shapes.push_back({"high symbols 254/255", d}); }
  for (size_t i = 0; i < shapes.size(); i++) { long u0 = unit++; if ((int)(u0 % nshards) != shard || u0 < start) continue; PG->sub = (int)u0; cases++; int mx = 0; for (int x : shapes[i].second) mx = std::max(mx, x); repair_case(shapes[i].second, (uchar)std::min(255, mx + 1), shapes[i].first, checks); asan_flush("RePair", shapes[i].first); }
  kstat(cases, checks);
  asan_flush("RePair", "end");
}

int main(int argc, char **argv) {
  str prop, part, out, shard = "0/1", tier = "quick";
  for (int i = 1; i < argc; i++) { str a = argv[i]; auto nx = [&]() { return str(i + 1 < argc ? argv[++i] : ""); };
    if (a == "--only") ONLY = nx(); else if (a == "--prop") prop = nx(); else if (a == "--part") part = nx(); else if (a == "--out") out = nx(); else if (a == "--shard") shard = nx(); else if (a == "--tier") tier = nx(); }
  int si = atoi(shard.c_str()), sn = atoi(shard.substr(shard.find('/') + 1).c_str());
  bool th = tier == "thorough";
  pg_init();
  double t0 = now_s();
  if (part == "vbyte") {
    // value ranges: thorough = all 2^32; quick = all < 2^22 plus +-2 around every 2^(7k) and all values with <= 2 bits set
    if (th) { uint64_t per = ((uint64_t)1 << 32) / sn; uint64_t lo = per * si, hi = si == sn - 1 ? ((uint64_t)1 << 32) : per * (si + 1);
      for (uint64_t a = lo; a < hi; a += ((uint64_t)1 << 26)) { uint64_t b = std::min(hi, a + ((uint64_t)1 << 26)); in_child("VByte", [=]() { c17_vbyte(a, b); }, 600); }
      if (si == 0) SAMPLES.push_back("{\"component\":\"VByte+VB2\",\"values\":\"every uint32 value 0..4294967295\"}"); }
    else { uint64_t per = ((uint64_t)1 << 22) / sn; in_child("VByte", [=]() { c17_vbyte(per * si, per * (si + 1)); });
      if (si == 0) in_child("VByte", [=]() { for (int k = 1; k <= 4; k++) { uint64_t c = (uint64_t)1 << (7 * k); c17_vbyte(c - 2, c + 3); } c17_vbyte(((uint64_t)1 << 32) - 3, (uint64_t)1 << 32);
        for (int a = 0; a < 32; a++) for (int b = a; b < 32; b++) { uint64_t v = ((uint64_t)1 << a) | ((uint64_t)1 << b); c17_vbyte(v, v + 1); } });
      if (si == 0) SAMPLES.push_back("{\"component\":\"VByte+VB2\",\"values\":\"every value < 2^22, +-2 around 2^7k, 2^32-3..2^32-1, every value with <= 2 bits set\"}"); }
  } else if (part == "logseq") {
    for (uint w = 1; w <= 64; w++) if ((int)(w % sn) == si) in_child("LogSequence", [=]() { c17_logseq_width(w, th); });
  } else if (part == "dacvls") {
    std::vector<uint> widths = {2, 8, 9, 17};
    for (size_t i = 0; i < widths.size(); i++) if ((int)(i % sn) == si) { uint w = widths[i]; in_child("DAC_VLS", [=]() { c17_dac_vls(w, th ? 4 : 3, th ? 3 : 2); }, 600); }
  } else if (part == "codes") { in_child_resumable("codes", [=](long st) { c18_codes(th, si, sn, st); }, 600);
  } else if (part == "decode") { in_child_resumable("DecodingTable", [=](long st) { c18_decode(th, si, sn, st); }, 600);
  } else if (part == "bits") { in_child_resumable("BitSequence", [=](long st) { c19_bits(th, si, sn, st); }, 3000);
  } else if (part == "wt") { in_child_resumable("WaveletTree", [=](long st) { c19_wt(th, si, sn, st); }, 3000);
  } else if (part == "repair") { in_child_resumable("RePair", [=](long st) { c20_repair(th, si, sn, st); }, 3000);
  } else { fprintf(stderr, "unknown part\n"); return 2; }
  FILE *f = out.empty() ? stdout : fopen(out.c_str(), "w");
  fprintf(f, "{\"prop\":\"%s\",\"part\":\"%s\",\"shard\":\"%s\",\"cases\":%ld,\"checks\":%ld,\"blocked_units\":%ld,\"wall_s\":%.2f,\"samples\":[", prop.c_str(), part.c_str(), shard.c_str(), CASES, CHECKS, BLOCKED_UNITS, now_s() - t0);
  for (size_t i = 0; i < SAMPLES.size(); i++) fprintf(f, "%s%s", i ? "," : "", SAMPLES[i].c_str());
  fprintf(f, "],\"failures\":[");
  bool first = true;
  for (auto &kv : FAILS) { fprintf(f, "%s{\"comp\":\"%s\",\"op\":\"%s\",\"sig\":\"%s\",\"detail\":\"%s\",\"input\":\"%s\",\"count\":%ld}", first ? "" : ",", jesc(kv.second.comp).c_str(), jesc(kv.second.op).c_str(), jesc(kv.second.sig).c_str(), jesc(kv.second.detail).c_str(), jesc(kv.second.input).c_str(), kv.second.count); first = false; }
  fprintf(f, "]}\n");
  if (f != stdout) fclose(f);
  return 0;
}
