// vx.hpp -- shared infrastructure of the bounded-exhaustive explorers (BX/HX/KX).
//  * kind table: how each of the 13 dictionary kinds is built, saved, reloaded
//  * boring reference model (sorted vector of strings)
//  * ASan report capture (recover mode) reduced to signatures
//  * forked cell runner with a shared progress page, so a fatal outcome is an observation
//  * failure records with named scope predicates (matched against known_findings.json by ./check)
#pragma once
#include <algorithm>
#include <cassert>
#include <cerrno>
#include <csignal>
#include <cstdarg>
#include <cstdint>
#include <cstdio>
#include <cstdlib>
#include <cstring>
#include <fcntl.h>
#include <functional>
#include <map>
#include <poll.h>
#include <set>
#include <sstream>
#include <string>
#include <sys/mman.h>
#include <sys/time.h>
#include <sys/wait.h>
#include <unistd.h>
#include <vector>

#include "StringDictionary.h"
#include "StringDictionaryHASHRPDACBlocks.h"
#include "iterators/IteratorDictStringPlain.h"

typedef std::string str;
typedef std::vector<std::string> strs;

static inline double now_s() {
  struct timeval tv;
  gettimeofday(&tv, 0);
  return tv.tv_sec + tv.tv_usec * 1e-6;
}
static inline str hex(const str &s) {
  static const char *d = "0123456789abcdef";
  str o;
  for (unsigned char c : s) { o += d[c >> 4]; o += d[c & 15]; }
  return o;
}
static inline str unhex(const str &h) {
  str o;
  for (size_t i = 0; i + 1 < h.size(); i += 2) o += (char)strtol(h.substr(i, 2).c_str(), 0, 16);
  return o;
}
static inline str jesc(const str &s) {
  str o;
  for (unsigned char c : s) {
    if (c == '"' || c == '\\') { o += '\\'; o += c; }
    else if (c < 0x20 || c >= 0x7f) { char b[8]; snprintf(b, 8, "\\u%04x", c); o += b; }
    else o += c;
  }
  return o;
}
static inline str fmt(const char *f, ...) {
  char b[4096];
  va_list ap; va_start(ap, f); int n = vsnprintf(b, sizeof b, f, ap); va_end(ap);
  if (n < (int)sizeof b) return b;
  str big((size_t)n + 1, '\0');            // witnesses of large sets exceed the stack buffer
  va_start(ap, f); vsnprintf(&big[0], big.size(), f, ap); va_end(ap);
  big.resize((size_t)n);
  return big;
}
static inline strs split(const str &s, char c) {
  strs o; str cur;
  for (char x : s) { if (x == c) { o.push_back(cur); cur.clear(); } else cur += x; }
  o.push_back(cur);
  return o;
}
// printable rendering of a byte string for evidence samples
static inline str show(const str &s) {
  bool pr = true;
  for (unsigned char c : s) if (c < 0x21 || c > 0x7e) pr = false;
  if (pr && s.size() <= 24) return s;
  if (s.size() > 24) {
    // run-length rendering for stretched strings
    str o; size_t i = 0;
    while (i < s.size()) { size_t j = i; while (j < s.size() && s[j] == s[i]) j++;
      o += fmt("%02x*%zu ", (unsigned char)s[i], j - i); i = j; }
    return o;
  }
  return "x" + hex(s);
}

// ---------------------------------------------------------------- kinds
enum Kind { K_PFC, K_RPFC, K_HTFC, K_HHTFC, K_RPHTFC, K_RPDAC, K_HASHHF, K_HASHRPF, K_HASHUFFDAC,
            K_HASHRPDAC, K_BLOCKS, K_FMINDEX, K_XBW, NKINDS };
static const char *KNAME[NKINDS] = {"PFC", "RPFC", "HTFC", "HHTFC", "RPHTFC", "RPDAC", "HASHHF", "HASHRPF",
                                    "HASHUFFDAC", "HASHRPDAC", "HASHRPDACBlocks", "FMINDEX", "XBW"};
static const uint32_t KTAG[NKINDS] = {PFC, RPFC, HTFC, HHTFC, RPHTFC, RPDAC, HASHHF, HASHRPF, HASHUFFDAC,
                                      HASHRPDAC, HASHRPDACBlocks, FMINDEX, DXBW};
static inline int kind_by_name(const str &n) {
  for (int k = 0; k < NKINDS; k++) if (n == KNAME[k]) return k;
  return -1;
}
static inline bool k_bucketed(int k) { return k <= K_RPHTFC; }
static inline bool k_hash(int k) { return k >= K_HASHHF && k <= K_BLOCKS; }
static inline bool k_ordered(int k) { return k <= K_RPDAC || k == K_FMINDEX; }   // IDs = lexicographic rank (C03)
static inline bool k_has_loadopt(int k) { return k == K_HASHHF || k == K_HASHRPF || k == K_HASHRPDAC || k == K_BLOCKS; }

// Parameter vector; meaning depends on the kind:
//  bucketed kinds : a = bucket size
//  hash kinds     : a = overhead (percent)            Blocks: b = cut size, c = thread count
//  FMINDEX        : a = sparse bitmap (0 RG / 1 RRR), b = bitmap parameter, c = BWT sampling
struct Params { long a = 0, b = 0, c = 0;
  str s() const { return fmt("%ld,%ld,%ld", a, b, c); }
  static Params parse(const str &t) { Params p; auto v = split(t, ','); if (v.size() > 0) p.a = atol(v[0].c_str());
    if (v.size() > 1) p.b = atol(v[1].c_str()); if (v.size() > 2) p.c = atol(v[2].c_str()); return p; } };

static inline str join_nul(const strs &S) { str t; for (auto &s : S) { t += s; t += '\0'; } return t; }

// Build a dictionary exactly the way Build.cpp does for that kind (buffer conventions included).
static inline StringDictionary *build_kind(int k, const Params &p, const strs &S) {
  str t = join_nul(S);
  size_t len = t.size();
  uchar *buf = new uchar[len + 2];
  memcpy(buf, t.data(), len);
  buf[len] = 0; buf[len + 1] = 0;
  switch (k) {
  case K_PFC: return new StringDictionaryPFC(new IteratorDictStringPlain(buf, len), p.a);
  case K_RPFC: return new StringDictionaryRPFC(new IteratorDictStringPlain(buf, len), p.a);
  case K_HTFC: return new StringDictionaryHTFC(new IteratorDictStringPlain(buf, len), p.a);
  case K_HHTFC: return new StringDictionaryHHTFC(new IteratorDictStringPlain(buf, len), p.a);
  case K_RPHTFC: return new StringDictionaryRPHTFC(new IteratorDictStringPlain(buf, len), p.a);
  case K_RPDAC: return new StringDictionaryRPDAC(new IteratorDictStringPlain(buf, len));
  case K_HASHHF: return new StringDictionaryHASHHF(new IteratorDictStringPlain(buf, len), len, p.a);
  case K_HASHRPF: return new StringDictionaryHASHRPF(new IteratorDictStringPlain(buf, len), len, p.a);
  case K_HASHUFFDAC: return new StringDictionaryHASHUFFDAC(new IteratorDictStringPlain(buf, len), len, p.a);
  case K_HASHRPDAC: return new StringDictionaryHASHRPDAC(new IteratorDictStringPlain(buf, len), len, p.a);
  case K_BLOCKS: return new StringDictionaryHASHRPDACBlocks(new IteratorDictStringPlain(buf, len), len, p.a,
                                                              (unsigned long)p.b, (int)p.c);
  case K_FMINDEX: { IteratorDictString *it = new IteratorDictStringPlain(buf, len);
    StringDictionary *d = new StringDictionaryFMINDEX(it, p.a != 0, (int)p.b, (size_t)p.c); delete it; return d; }
  case K_XBW: { IteratorDictString *it = new IteratorDictStringPlain(buf, len);
    StringDictionary *d = new StringDictionaryXBW(it); delete it; return d; }
  }
  return 0;
}
static inline StringDictionary *load_own(int k, std::istream &in, uint opt) {
  switch (k) {
  case K_PFC: return StringDictionaryPFC::load(in);
  case K_RPFC: return StringDictionaryRPFC::load(in);
  case K_HTFC: return StringDictionaryHTFC::load(in);
  case K_HHTFC: return StringDictionaryHHTFC::load(in);
  case K_RPHTFC: return StringDictionaryRPHTFC::load(in);
  case K_RPDAC: return StringDictionaryRPDAC::load(in);
  case K_HASHHF: return StringDictionaryHASHHF::load(in, opt);
  case K_HASHRPF: return StringDictionaryHASHRPF::load(in, opt);
  case K_HASHUFFDAC: return StringDictionaryHASHUFFDAC::load(in);
  case K_HASHRPDAC: return StringDictionaryHASHRPDAC::load(in, opt);
  case K_BLOCKS: return StringDictionaryHASHRPDACBlocks::load(in, opt);
  case K_FMINDEX: return StringDictionaryFMINDEX::load(in);
  case K_XBW: return StringDictionaryXBW::load(in);
  }
  return 0;
}
static inline str save_img(StringDictionary *d) { std::ostringstream o; d->save(o); return o.str(); }

// read-only stream buffer over caller-owned memory (no copy; supports the seekg(0) the generic loader performs)
struct MemBuf : std::streambuf {
  MemBuf(const char *b, size_t n) { char *p = const_cast<char *>(b); setg(p, p, p + n); }
  pos_type seekoff(off_type off, std::ios_base::seekdir dir, std::ios_base::openmode) override {
    char *np = dir == std::ios_base::beg ? eback() + off : dir == std::ios_base::cur ? gptr() + off : egptr() + off;
    if (np < eback() || np > egptr()) return pos_type(off_type(-1));
    setg(eback(), np, egptr());
    return pos_type(np - eback());
  }
  pos_type seekpos(pos_type pos, std::ios_base::openmode m) override { return seekoff(off_type(pos), std::ios_base::beg, m); }
};

// ---------------------------------------------------------------- ASan capture
extern "C" {
void __asan_set_error_report_callback(void (*)(const char *));
const char *__asan_default_options();
}
#ifndef VX_FILL
#define VX_FILL "0xa5"
#endif

// ---------------------------------------------------------------- shared progress page
struct Progress {
  volatile int sub;            // sub-cell index being executed
  volatile int nsub_done;      // sub-cells finished
  char op[64];                 // current operation
  char arg[400];               // its argument (hex, truncated)
  char src[24];                // current source
  volatile int asan_n;         // number of ASan reports captured in the current sub-cell
  char asan_sig[8][160];       // their signatures
  char asan_op[8][64];
};
static Progress *PG = 0;
static inline void pg_init() {
  PG = (Progress *)mmap(0, sizeof(Progress), PROT_READ | PROT_WRITE, MAP_SHARED | MAP_ANONYMOUS, -1, 0);
  memset((void *)PG, 0, sizeof(Progress));
}
static inline void pg_op(const char *op, const str &arg = "") {
  if (!PG) return;
  strncpy(PG->op, op, sizeof(PG->op) - 1);
  str h = hex(arg.substr(0, 190));
  strncpy(PG->arg, h.c_str(), sizeof(PG->arg) - 1);
  PG->arg[sizeof(PG->arg) - 1] = 0;
}
static inline void pg_src(const char *s) { if (PG) { strncpy(PG->src, s, sizeof(PG->src) - 1); } }

// ASan report -> signature "class@module+off" (symbolised later by ./check with addr2line).
static std::vector<std::pair<str, str>> ASAN_REPORTS;   // (signature, op at the time)
static bool ASAN_COLLECT = true;
static void asan_cb(const char *rep) {
  // error class: "ERROR: AddressSanitizer: heap-buffer-overflow on address ..."
  str r(rep);
  str cls = "unknown";
  size_t p = r.find("AddressSanitizer: ");
  if (p != str::npos) { size_t e = r.find_first_of(" \n", p + 18); cls = r.substr(p + 18, e - (p + 18)); }
  bool rd = r.find("\nREAD of size") != str::npos, wr = r.find("\nWRITE of size") != str::npos;
  if (wr) cls += ":W"; else if (rd) cls += ":R";
  // innermost frame in our own binary:  "#1 0x55... (/path/bx+0x1234)"  (symbolize=0)
  str frame = "?";
  size_t q = r.find("    #0 ");
  int guard = 0;
  while (q != str::npos && guard++ < 12) {
    size_t eol = r.find('\n', q);
    str line = r.substr(q, eol - q);
    size_t lp = line.rfind('('), pl = line.rfind('+'), rp = line.rfind(')');
    if (lp != str::npos && pl != str::npos && rp != str::npos && pl > lp) {
      str mod = line.substr(lp + 1, pl - lp - 1);
      if (mod.find("libasan") == str::npos && mod.find("libc.so") == str::npos && mod.find("libstdc++") == str::npos) {
        frame = "+" + line.substr(pl + 1, rp - pl - 1);
        break;
      }
    }
    if (eol == str::npos) break;
    q = r.find("    #", eol);
    if (q != str::npos && q != eol + 1) break;   // end of the first stack
  }
  str sig = cls + "@" + frame;
  str op = PG ? str(PG->op) : str("");
  if (ASAN_COLLECT) ASAN_REPORTS.push_back({sig, op});
  if (PG && PG->asan_n < 8) {
    strncpy(PG->asan_sig[PG->asan_n], sig.c_str(), 159);
    strncpy(PG->asan_op[PG->asan_n], op.c_str(), 63);
    PG->asan_n++;
  }
}
static inline void asan_init() { __asan_set_error_report_callback(asan_cb); }

// ---------------------------------------------------------------- model
struct Model {
  strs S;                                          // sorted (unsigned bytes), duplicate-free
  explicit Model(const strs &s) : S(s) {}
  size_t n() const { return S.size(); }
  size_t maxlen() const { size_t m = 0; for (auto &s : S) m = std::max(m, s.size()); return m; }
  size_t rank(const str &q) const {                // 1-based index or 0
    auto it = std::lower_bound(S.begin(), S.end(), q, [](const str &a, const str &b) {
      return std::lexicographical_compare((const uchar *)a.data(), (const uchar *)a.data() + a.size(),
                                          (const uchar *)b.data(), (const uchar *)b.data() + b.size()); });
    if (it != S.end() && *it == q) return (it - S.begin()) + 1;
    return 0;
  }
  std::vector<size_t> prefix(const str &p) const { std::vector<size_t> r;
    for (size_t i = 0; i < S.size(); i++) if (S[i].size() >= p.size() && S[i].compare(0, p.size(), p) == 0) r.push_back(i + 1);
    return r; }
  std::vector<size_t> substr(const str &p) const { std::vector<size_t> r;
    for (size_t i = 0; i < S.size(); i++) if (S[i].find(p) != str::npos) r.push_back(i + 1);
    return r; }
};
static inline bool ult(const str &a, const str &b) {
  return std::lexicographical_compare((const uchar *)a.data(), (const uchar *)a.data() + a.size(),
                                      (const uchar *)b.data(), (const uchar *)b.data() + b.size());
}

// ---------------------------------------------------------------- input spaces
// U(sigma,L): all non-empty strings of length <= L over abstract symbols 0..sigma-1, in lexicographic order.
static inline void gen_universe(int sigma, int L, strs &out) {
  std::function<void(str)> rec = [&](str cur) {
    if (!cur.empty()) out.push_back(cur);
    if ((int)cur.size() == L) return;
    for (int c = 0; c < sigma; c++) rec(cur + (char)c);
  };
  rec("");
}
struct Palette { const char *name; uchar b[4]; };
static const Palette PALETTES[] = {
  {"abc", {'a', 'b', 'c', 'd'}},
  {"ext", {0x02, 0x03, 0xFE, 0}},       // range extremes (3 members max)
  {"sgn", {0x7F, 0x80, 0x81, 0x82}},    // signed-char boundary
  {"spr", {'0', 'A', 'z', 0xC8}},       // sparse
};
static const int NPAL = 4;
static inline int pal_by_name(const str &n) { for (int i = 0; i < NPAL; i++) if (n == PALETTES[i].name) return i; return -1; }
static inline str concretise(const str &abs, const Palette &pal, int stretch) {
  str o;
  for (unsigned char c : abs) o.append((size_t)stretch, (char)pal.b[c]);
  return o;
}

// ---------------------------------------------------------------- failure records
struct Failure {
  str prop, kind, params, src, op, sig, detail, preds;
  str strings_hex;   // comma separated
  str arg_hex;
  str cell;          // pal/stretch/sigma/L/nf of the cell (needed to rebuild the query universe on replay)
  str key() const { return prop + "|" + kind + "|" + src + "|" + op + "|" + sig; }
};
static inline str failure_json(const Failure &f) {
  return fmt("{\"prop\":\"%s\",\"kind\":\"%s\",\"params\":\"%s\",\"src\":\"%s\",\"op\":\"%s\",\"sig\":\"%s\","
             "\"preds\":\"%s\",\"strings\":\"%s\",\"arg\":\"%s\",\"cell\":\"%s\",\"detail\":\"%s\"}",
             f.prop.c_str(), f.kind.c_str(), f.params.c_str(), f.src.c_str(), f.op.c_str(), jesc(f.sig).c_str(),
             f.preds.c_str(), f.strings_hex.c_str(), f.arg_hex.c_str(), f.cell.c_str(), jesc(f.detail).c_str());
}
