// ops.hpp -- guarded wrappers around the public API + the canonical observation vector.
// Every wrapper: publishes the operation on the progress page (so a fatal outcome is attributable),
// passes the pattern in an exact-size heap buffer (ASan guards the terminator), catches exceptions,
// and counts one transition.
#pragma once
#include "vx.hpp"

struct Ctx {
  // identity of the running cell
  str prop; int kind = 0; Params p; strs S; str src; str cellinfo;
  // counters
  long transitions = 0, objects = 0;
  // output
  std::vector<Failure> fails;
  std::set<str> fail_keys;      // dedupe inside one sub-cell: key+preds
  bool want_pattern_check = false;   // C14: compare caller's pattern after each call
  int extra_pred_mask = 0;
  std::set<uchar> member_bytes; uchar maxchar = 0;
  void set_cell(int k, const Params &pp, const strs &s) {
    kind = k; p = pp; S = s; member_bytes.clear(); maxchar = 0;
    for (auto &x : S) for (uchar c : x) { member_bytes.insert(c); if (c > maxchar) maxchar = c; }
  }
  str preds(const str &arg) const {
    str o = "always";
    size_t n = S.size();
    if (src == "fresh") o += ",fresh"; else o += ",loaded";
    if (n == 1) o += ",n1";
    if (k_bucketed(kind)) {
      long bs = p.a < 2 ? 2 : p.a;
      if (n % bs == 0) o += ",n_mod_bs_0";
      if ((long)n <= bs) o += ",single_bucket";
      if (p.a < 2) o += ",bs_lt_2";
    }
    if (kind == K_FMINDEX && p.c == 0) o += ",bwt0";
    if (kind == K_FMINDEX && p.c > 0) o += ",bwt_pos";
    if (!arg.empty()) {
      bool foreign = false, gt = false;
      for (uchar c : arg) { if (!member_bytes.count(c)) foreign = true; if (c > maxchar) gt = true; }
      if (foreign) o += ",arg_foreign";
      if (gt) o += ",arg_gt_maxchar";
      if (arg.size() == 1) o += ",arg_len1";
    }
    size_t mx = 0; for (auto &x : S) mx = std::max(mx, x.size());
    if (mx >= 128) o += ",long_strings";
    if (member_bytes.count(0xFE)) o += ",has_fe";
    return o;
  }
  void fail(const str &op, const str &sig, const str &detail, const str &arg = "") {
    Failure f;
    f.prop = prop; f.kind = KNAME[kind]; f.params = p.s(); f.src = src; f.op = op; f.sig = sig; f.detail = detail;
    f.preds = preds(arg);
    str k = f.key() + "|" + f.preds;
    if (fail_keys.count(k)) return;
    fail_keys.insert(k);
    str sh; for (size_t i = 0; i < S.size(); i++) { if (i) sh += ","; sh += hex(S[i]); }
    f.strings_hex = sh; f.arg_hex = hex(arg); f.cell = cellinfo;
    fails.push_back(f);
  }
};

struct PatBuf {            // exact-size heap copy of a pattern
  uchar *b; size_t n; str orig;
  explicit PatBuf(const str &s) : n(s.size()), orig(s) { b = new uchar[n + 1]; memcpy(b, s.data(), n); b[n] = 0; }
  bool intact() const { return memcmp(b, orig.data(), n) == 0 && b[n] == 0; }
  ~PatBuf() { delete[] b; }
};

struct XAns { bool threw = false; bool null = true; str s; uint len = 0; bool lenok = true; };

#define GUARD(body, onthrow) try { body; } catch (...) { onthrow; }

static inline size_t x_locate(Ctx &c, StringDictionary *d, const str &q, bool *threw = 0, bool *patok = 0) {
  pg_op("locate", q); c.transitions++;
  PatBuf pb(q); size_t id = 0;
  GUARD(id = d->locate(pb.b, (uint)q.size()), { if (threw) *threw = true; c.fail("locate", "exception", "locate threw", q); return (size_t)-2; });
  if (patok) *patok = pb.intact();
  if (c.want_pattern_check && !pb.intact()) c.fail("locate", "pattern_modified", "caller's pattern changed by locate", q);
  return id;
}
static inline XAns x_extract_impl(Ctx &c, StringDictionary *d, size_t id, bool rank) {
  const char *opn = rank ? "extractRank" : "extract";
  pg_op(opn, fmt("%zu", id)); c.transitions++;
  XAns a; uint len = 0xDEADBEEF; uchar *r = 0;
  GUARD(r = rank ? d->extractRank((uint)id, &len) : d->extract(id, &len), { a.threw = true; c.fail(opn, "exception", fmt("%s(%zu) threw", opn, id)); return a; });
  a.len = len;
  if (r) { a.null = false; a.s = str((char *)r); a.lenok = (a.s.size() == len); delete[] r; }
  return a;
}
static inline XAns x_extract(Ctx &c, StringDictionary *d, size_t id) { return x_extract_impl(c, d, id, false); }
static inline XAns x_extractRank(Ctx &c, StringDictionary *d, size_t k) { return x_extract_impl(c, d, k, true); }
static inline long x_locateRank(Ctx &c, StringDictionary *d, size_t k) {
  pg_op("locateRank", fmt("%zu", k)); c.transitions++;
  long r = -1;
  GUARD(r = d->locateRank((uint)k), { c.fail("locateRank", "exception", "threw"); return -2; });
  return r;
}

struct IdList { bool null = false, threw = false, overrun = false; std::vector<size_t> ids; };
struct StrList { bool null = false, threw = false, overrun = false, lenbad = false; strs v; };

static inline IdList drain_ids(Ctx &c, IteratorDictID *it, size_t cap, const char *opn, const str &arg) {
  IdList r;
  if (!it) { r.null = true; return r; }
  GUARD({
    while (it->hasNext()) {
      if (r.ids.size() >= cap) { r.overrun = true; break; }
      c.transitions++;
      r.ids.push_back(it->next());
    }
    delete it; },
    { r.threw = true; c.fail(opn, "exception", "ID iterator threw", arg); });
  return r;
}
static inline StrList drain_strs(Ctx &c, IteratorDictString *it, size_t cap, const char *opn, const str &arg) {
  StrList r;
  if (!it) { r.null = true; return r; }
  GUARD({
    while (it->hasNext()) {
      if (r.v.size() >= cap) { r.overrun = true; break; }
      c.transitions++;
      uint len = 0xDEADBEEF; uchar *s = it->next(&len);
      if (!s) { r.v.push_back("<NULL>"); r.lenbad = true; continue; }
      str x((char *)s);
      if (x.size() != len) r.lenbad = true;
      r.v.push_back(x);
      delete[] s;
    }
    delete it; },
    { r.threw = true; c.fail(opn, "exception", "string iterator threw", arg); });
  return r;
}
static inline IdList x_locatePrefix(Ctx &c, StringDictionary *d, const str &q, size_t cap) {
  pg_op("locatePrefix", q); c.transitions++;
  PatBuf pb(q); IteratorDictID *it = 0;
  GUARD(it = d->locatePrefix(pb.b, (uint)q.size()), { IdList r; r.threw = true; c.fail("locatePrefix", "exception", "threw", q); return r; });
  if (c.want_pattern_check && !pb.intact()) c.fail("locatePrefix", "pattern_modified", "caller's pattern changed", q);
  return drain_ids(c, it, cap, "locatePrefix", q);
}
static inline IdList x_locateSubstr(Ctx &c, StringDictionary *d, const str &q, size_t cap) {
  pg_op("locateSubstr", q); c.transitions++;
  PatBuf pb(q); IteratorDictID *it = 0;
  GUARD(it = d->locateSubstr(pb.b, (uint)q.size()), { IdList r; r.threw = true; c.fail("locateSubstr", "exception", "threw", q); return r; });
  if (c.want_pattern_check && !pb.intact()) c.fail("locateSubstr", "pattern_modified", "caller's pattern changed", q);
  return drain_ids(c, it, cap, "locateSubstr", q);
}
static inline StrList x_extractPrefix(Ctx &c, StringDictionary *d, const str &q, size_t cap) {
  pg_op("extractPrefix", q); c.transitions++;
  PatBuf pb(q); IteratorDictString *it = 0;
  GUARD(it = d->extractPrefix(pb.b, (uint)q.size()), { StrList r; r.threw = true; c.fail("extractPrefix", "exception", "threw", q); return r; });
  if (c.want_pattern_check && !pb.intact()) c.fail("extractPrefix", "pattern_modified", "caller's pattern changed", q);
  // NB the XBW string iterator keeps the caller's pattern pointer: keep pb alive while draining
  StrList r = drain_strs(c, it, cap, "extractPrefix", q);
  return r;
}
static inline StrList x_extractSubstr(Ctx &c, StringDictionary *d, const str &q, size_t cap) {
  pg_op("extractSubstr", q); c.transitions++;
  PatBuf pb(q); IteratorDictString *it = 0;
  GUARD(it = d->extractSubstr(pb.b, (uint)q.size()), { StrList r; r.threw = true; c.fail("extractSubstr", "exception", "threw", q); return r; });
  if (c.want_pattern_check && !pb.intact()) c.fail("extractSubstr", "pattern_modified", "caller's pattern changed", q);
  return drain_strs(c, it, cap, "extractSubstr", q);
}
static inline StrList x_extractTable(Ctx &c, StringDictionary *d, size_t cap) {
  pg_op("extractTable"); c.transitions++;
  IteratorDictString *it = 0;
  GUARD(it = d->extractTable(), { StrList r; r.threw = true; c.fail("extractTable", "exception", "threw"); return r; });
  return drain_strs(c, it, cap, "extractTable", "");
}
static inline bool x_save(Ctx &c, StringDictionary *d, str &img) {
  pg_op("save"); c.transitions++;
  GUARD(img = save_img(d), { c.fail("save", "exception", "save threw"); return false; });
  return true;
}
static inline StringDictionary *x_load(Ctx &c, int kind, const str &img, bool generic, uint opt, long *consumed = 0) {
  pg_op(generic ? "load_generic" : "load_own", fmt("%u", opt)); c.transitions++;
  std::istringstream in(img);
  StringDictionary *d = 0;
  GUARD(d = generic ? StringDictionary::load(in, opt) : load_own(kind, in, opt),
        { c.fail(generic ? "load_generic" : "load_own", "exception", "load threw"); return 0; });
  if (consumed) { in.clear(); *consumed = (long)in.tellg(); }
  return d;
}
static inline void x_delete(Ctx &c, StringDictionary *d) {
  pg_op("destroy"); c.transitions++;
  GUARD(delete d, { c.fail("destroy", "exception", "destructor threw"); });
}

// ---------------------------------------------------------------- capabilities
static inline bool cap_prefix(int k) { return k <= K_RPDAC || k == K_FMINDEX || k == K_XBW; }
static inline bool cap_substr(int k, const Params &p) { return (k == K_FMINDEX && p.c > 0) || k == K_XBW; }
static inline bool cap_rank(int k) { return k <= K_RPDAC || k == K_FMINDEX || k == K_XBW; }
static inline bool cap_table(int k) { return k != K_XBW; }

// ---------------------------------------------------------------- query universe
// All strings of length <= L+1 over the member bytes, plus all such strings with exactly one
// query-only byte (deviation bound 1), then stretched; for stretch > 1 also the +-1-byte neighbours.
static inline strs query_universe(const Palette &pal, int sigma, int L, int stretch, int nforeign) {
  std::vector<uchar> mem(pal.b, pal.b + sigma);
  std::vector<uchar> fo;
  uchar mx = *std::max_element(mem.begin(), mem.end());
  auto ismem = [&](uchar b) { return std::find(mem.begin(), mem.end(), b) != mem.end(); };
  std::vector<uchar> cand = {(uchar)(mx + 1), 0x02, 0xFE};
  for (int b = mem[0] + 1; b < 255; b++) if (!ismem((uchar)b) && b < mx) { cand.push_back((uchar)b); break; }
  for (uchar b : cand) if (b >= 2 && b <= 0xFE && !ismem(b) && std::find(fo.begin(), fo.end(), b) == fo.end() && (int)fo.size() < nforeign) fo.push_back(b);
  std::set<str> Q;
  std::function<void(str, bool)> rec = [&](str cur, bool usedf) {
    if (!cur.empty()) Q.insert(cur);
    if ((int)cur.size() == L + 1) return;
    for (uchar m : mem) rec(cur + (char)m, usedf);
    if (!usedf) for (uchar f : fo) rec(cur + (char)f, true);
  };
  rec("", false);
  strs out;
  std::set<str> seen;
  auto add = [&](const str &s) { if (!s.empty() && !seen.count(s)) { seen.insert(s); out.push_back(s); } };
  for (auto &q : Q) {
    str s; for (uchar ch : q) s.append((size_t)stretch, (char)ch);
    add(s);
    if (stretch > 1) { add(s.substr(0, s.size() - 1)); add(s + (char)mem[0]); add(s + (char)mem[sigma - 1]); add(s.substr(1)); }
  }
  return out;
}
static inline std::vector<size_t> bad_ids(size_t n) {
  std::vector<size_t> v = {0, n + 1, n + 2, 2 * n + 1, (size_t)1 << 31, ((size_t)1 << 32) - 1, (size_t)1 << 32, ((size_t)1 << 32) + 1,
                           ((size_t)1 << 32) + n, (size_t)-1};
  return v;
}
