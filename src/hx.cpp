// hx.cpp -- HX: explicit-state search over call histories of one dictionary object (DESIGN.md 4.1), property C14.
// State  = heap image of the object: (address, size, bytes) of every block allocated while it was built/loaded that
//          is still live, plus the set of such blocks that have been freed.  Every exploration step runs in a child
//          forked from the same pristine parent, so addresses are identical between replays of a history.
// Search = BFS from the state after construction; alphabet = every public query (incl. failed look-ups, unsupported
//          operations, save) plus composite operations that drain two iterators in every interleaving with look-ups
//          in between.  An operation that leaves the image unchanged is a self-loop; if all are, the search closes after
//          one state and the invariant holds for histories of every length.
// Oracle = answer of each operation equals the answer given in the initial state (a fresh copy), the caller's pattern
//          buffer is byte-identical after the call, interleaved drains equal solo drains.
#include "scope.hpp"
#include <atomic>

extern "C" const char *__asan_default_options() {
  return "halt_on_error=0:detect_leaks=0:strict_memcmp=0:strict_string_checks=0:symbolize=0:print_summary=0:"
         "allocator_may_return_null=1:max_allocation_size_mb=1024:detect_stack_use_after_return=0:malloc_context_size=3:"
         "print_legend=0:max_malloc_fill_size=0:detect_odr_violation=0:handle_abort=1";
}
extern "C" int __sanitizer_install_malloc_and_free_hooks(void (*)(const volatile void *, size_t), void (*)(const volatile void *));

// ------------------------------------------------------------------ allocation tracking
struct Blk { const void *p; size_t n; bool live; };
static std::vector<Blk> TRACK;          // blocks allocated while tracking was on (object construction)
static bool TRACKING = false;
static thread_local bool IN_HOOK = false;
// the block constructor allocates from its worker threads while the producer allocates too: the table is guarded by a spin lock
static std::atomic_flag TRACK_LOCK = ATOMIC_FLAG_INIT;
struct TrackGuard { TrackGuard() { while (TRACK_LOCK.test_and_set(std::memory_order_acquire)) {} } ~TrackGuard() { TRACK_LOCK.clear(std::memory_order_release); } };
static void mhook(const volatile void *p, size_t n) {
  if (n <= (8u << 20)) memset((void *)p, 0xA5, n);
  if (TRACKING && !IN_HOOK) { IN_HOOK = true; { TrackGuard g; TRACK.push_back({(const void *)p, n, true}); } IN_HOOK = false; }
}
static void fhook(const volatile void *p) {
  if (IN_HOOK) return;
  IN_HOOK = true;
  { TrackGuard g; for (auto &b : TRACK) if (b.p == (const void *)p && b.live) { b.live = false; break; } }
  IN_HOOK = false;
}
static uint64_t image_hash() {
  uint64_t h = 1469598103934665603ULL;
  auto mix = [&](uint64_t v) { h ^= v; h *= 1099511628211ULL; };
  for (auto &b : TRACK) {
    mix((uint64_t)b.p); mix(b.n); mix(b.live);
    if (b.live) { const unsigned char *q = (const unsigned char *)b.p; for (size_t i = 0; i < b.n; i++) { h ^= q[i]; h *= 1099511628211ULL; } }
  }
  return h;
}

// ------------------------------------------------------------------ alphabet
struct Op { str name; std::function<str(Ctx &, StringDictionary *)> run; str solo_a, solo_b; };   // composite ops name their solo references

static str ids_str(const IdList &r) { if (r.threw) return "THREW"; if (r.null) return "NULLIT"; str s; for (size_t id : r.ids) s += fmt("%zu,", id); if (r.overrun) s += "OVERRUN"; return s; }
static str strs_str(const StrList &r) { if (r.threw) return "THREW"; if (r.null) return "NULLIT"; str s; for (auto &x : r.v) s += hex(x) + ","; if (r.overrun) s += "OVERRUN"; if (r.lenbad) s += "!len"; return s; }

// an open iterator of either sort, advanced one element at a time
struct OpenIt {
  IteratorDictID *ii = 0; IteratorDictString *si = 0; PatBuf *pb = 0; str out; bool null = true; size_t steps = 0;
  bool has() { return ii ? ii->hasNext() : si ? si->hasNext() : false; }
  void step() { steps++; if (ii) out += fmt("%zu,", ii->next()); else if (si) { uint len = 0; uchar *s = si->next(&len); if (!s) { out += "<NULL>,"; return; } str x((char *)s); out += hex(x) + (x.size() == len ? "," : "!len,"); delete[] s; } }
  void close() { delete ii; delete si; delete pb; ii = 0; si = 0; pb = 0; }
};
static OpenIt open_it(Ctx &c, StringDictionary *d, const str &what) {   // what = "T" | "EP:<hex>" | "LP:<hex>" | "ES:<hex>" | "LS:<hex>"
  OpenIt o;
  if (what == "T") { pg_op("extractTable"); o.si = d->extractTable(); o.null = !o.si; return o; }
  str pat = unhex(what.substr(3)); o.pb = new PatBuf(pat);
  str t = what.substr(0, 2);
  pg_op(t.c_str(), pat);
  if (t == "EP") o.si = d->extractPrefix(o.pb->b, (uint)pat.size());
  else if (t == "LP") o.ii = d->locatePrefix(o.pb->b, (uint)pat.size());
  else if (t == "ES") o.si = d->extractSubstr(o.pb->b, (uint)pat.size());
  else if (t == "LS") o.ii = d->locateSubstr(o.pb->b, (uint)pat.size());
  if (!o.pb->intact()) c.fail(t == "EP" ? "extractPrefix" : t == "LP" ? "locatePrefix" : t == "ES" ? "extractSubstr" : "locateSubstr", "pattern_modified", "caller's pattern changed", pat);
  o.null = !(o.ii || o.si);
  return o;
}

static std::vector<Op> make_alphabet(const Cell &cell, int kind, const Params &p) {
  std::vector<Op> A;
  Model M(cell.S); size_t n = M.n(), cap = 2 * n + 8, capS = 4 * n * (cell.L * cell.stretch + 2) + 8;
  // small, sharp query sets: members (first, last), a proper prefix, an extension, an absent string with a foreign byte
  strs Lq = {M.S.front(), M.S.back(), M.S.front().substr(0, 1), M.S.back() + M.S.back().substr(0, 1)};
  for (auto &q : cell.Q) if (!M.rank(q)) { bool foreign = false; for (uchar ch : q) { bool mem = false; for (auto &s : M.S) if (s.find((char)ch) != str::npos) mem = true; if (!mem) foreign = true; } if (foreign) { Lq.push_back(q); break; } }
  { std::set<str> seen; strs u; for (auto &q : Lq) if (!q.empty() && seen.insert(q).second) u.push_back(q); Lq = u; }
  for (auto &q : Lq) A.push_back({"L:" + hex(q), [q](Ctx &c, StringDictionary *d) { return fmt("%zu", x_locate(c, d, q)); }, "", ""});
  for (size_t id : {(size_t)0, (size_t)1, n, n + 1}) A.push_back({fmt("E:%zu", id), [id](Ctx &c, StringDictionary *d) { XAns a = x_extract(c, d, id); return a.threw ? str("THREW") : a.null ? fmt("NULL/%u", a.len) : hex(a.s) + (a.lenok ? "" : "!len"); }, "", ""});
  strs Pq = {M.S.front().substr(0, 1), M.S.back()};
  for (auto &q : Lq) if (!M.rank(q) && M.prefix(q).empty()) { Pq.push_back(q); break; }
  for (auto &q : Pq) {
    A.push_back({"LP:" + hex(q), [q, cap](Ctx &c, StringDictionary *d) { return ids_str(x_locatePrefix(c, d, q, cap)); }, "", ""});
    A.push_back({"EP:" + hex(q), [q, cap](Ctx &c, StringDictionary *d) { return strs_str(x_extractPrefix(c, d, q, cap)); }, "", ""});
    A.push_back({"LS:" + hex(q), [q, capS](Ctx &c, StringDictionary *d) { return ids_str(x_locateSubstr(c, d, q, capS)); }, "", ""});
    A.push_back({"ES:" + hex(q), [q, capS](Ctx &c, StringDictionary *d) { return strs_str(x_extractSubstr(c, d, q, capS)); }, "", ""});
  }
  for (size_t k : {(size_t)1, n}) {
    A.push_back({fmt("LR:%zu", k), [k](Ctx &c, StringDictionary *d) { return fmt("%ld", x_locateRank(c, d, k)); }, "", ""});
    A.push_back({fmt("ER:%zu", k), [k](Ctx &c, StringDictionary *d) { XAns a = x_extractRank(c, d, k); return a.threw ? str("THREW") : a.null ? str("NULL") : hex(a.s); }, "", ""});
  }
  A.push_back({"T", [cap](Ctx &c, StringDictionary *d) { return strs_str(x_extractTable(c, d, cap)); }, "", ""});
  A.push_back({"SV", [](Ctx &c, StringDictionary *d) { str img; bool ok = x_save(c, d, img); uint64_t h = 1469598103934665603ULL; for (unsigned char ch : img) { h ^= ch; h *= 1099511628211ULL; } return ok ? fmt("%zu:%016lx", img.size(), (unsigned long)h) : str("THREW"); }, "", ""});
  A.push_back({"NE", [](Ctx &c, StringDictionary *d) { c.transitions++; return fmt("%zu/%u", (size_t)d->numElements(), d->maxLength()); }, "", ""});
  // composite: two iterators open at once, drained in every interleaving, with a successful and a failed look-up between steps
  str p0 = hex(M.S.front().substr(0, 1));
  strs its = {"T", "EP:" + p0, "LP:" + p0, "ES:" + p0, "LS:" + p0};
  str member = M.S.back(), absent = Lq.back();
  // a second, different pattern (first byte of the last member, else a longer prefix of it): two open iterators over DIFFERENT
  // results, so that a result array shared between iterators of one dictionary cannot go unnoticed
  str p1raw = M.S.back().substr(0, 1); if (hex(p1raw) == p0) p1raw = M.S.back().substr(0, 2);
  str p1 = hex(p1raw);
  std::vector<std::pair<str, str>> pairs;
  for (size_t a = 0; a < its.size(); a++) for (size_t b = a; b < its.size(); b++) pairs.push_back({its[a], its[b]});
  if (p1 != p0) for (const char *x : {"EP:", "LP:", "ES:", "LS:"}) for (const char *y : {"EP:", "LP:", "ES:", "LS:"}) pairs.push_back({x + p0, y + p1});
  for (auto &pr : pairs) {
    // schedules: bit i of mask = which iterator advances at step i (both drains have at most n elements; cap the mask length)
    size_t maxsteps = std::min<size_t>(2 * std::min<size_t>(n, 3), 6);
    for (uint32_t mask = 0; mask < (1u << maxsteps); mask++) {
      if (__builtin_popcount(mask) > (int)std::min<size_t>(n, 3) || (int)maxsteps - __builtin_popcount(mask) > (int)std::min<size_t>(n, 3)) continue;
      str wa = pr.first, wb = pr.second;
      A.push_back({fmt("IL:%s|%s|%u", wa.c_str(), wb.c_str(), mask), [wa, wb, mask, maxsteps, member, absent](Ctx &c, StringDictionary *d) {
        OpenIt x = open_it(c, d, wa), y = open_it(c, d, wb);
        c.transitions += 2;
        for (size_t i = 0; i < maxsteps; i++) {
          OpenIt &z = ((mask >> i) & 1) ? y : x;
          if (!z.null && z.has()) { c.transitions++; z.step(); }
          if (i == 1) x_locate(c, d, member);
          if (i == 2) x_locate(c, d, absent);
        }
        // drain the rest: x first, then y
        size_t guard = 0;
        while (!x.null && x.has() && guard++ < 64) { c.transitions++; x.step(); }
        while (!y.null && y.has() && guard++ < 128) { c.transitions++; y.step(); }
        str r = (x.null ? str("NULLIT") : x.out) + "|" + (y.null ? str("NULLIT") : y.out);
        x.close(); y.close();
        return r; }, wa, wb});
    }
  }
  (void)kind; (void)p;
  return A;
}

// ------------------------------------------------------------------ exploration of one object
struct Explored { long states = 0, transitions = 0, selfloops = 0, changes = 0, api_calls = 0; bool capped = false; std::vector<Failure> fails; std::vector<str> notes; bool died = false; str died_op, died_sig; };

static int OUTFD = -1;
static void emitl(const str &l) { str x = l + "\n"; size_t o = 0; while (o < x.size()) { ssize_t w = write(OUTFD, x.data() + o, x.size() - o); if (w <= 0) _exit(99); o += w; } }

// child: build object, replay history (op indices), then apply alphabet ops from `from` until the image changes
struct Cmd { int nhist; int hist[32]; int from; uint64_t expect; int have_expect; int quit; };
static void child_explore(const Cell &cell, int k, const Params &p, const str &src, const std::vector<Op> &A, const Cmd &cmd) {
  const int *hist = cmd.hist; int from = cmd.from; uint64_t expect_hash = cmd.expect; bool have_expect = cmd.have_expect;
  Ctx c; c.prop = "C14"; c.want_pattern_check = true; c.set_cell(k, p, cell.S); c.src = src;
  c.cellinfo = fmt("pal=%s,stretch=%d,sigma=%d,L=%d,nf=2", PALETTES[cell.pal].name, cell.stretch, cell.sigma, cell.L);
  pg_src(src.c_str());
  // the image of a loaded object: produce the image first (untracked), then load (tracked)
  StringDictionary *d = 0; str img;
  if (src != "fresh") { pg_op("build"); StringDictionary *f = build_kind(k, p, cell.S); img = save_img(f); delete f; }
  TRACK.clear(); TRACKING = true;
  if (src == "fresh") { pg_op("build"); d = build_kind(k, p, cell.S); }
  else { pg_op("load_own"); std::istringstream in(img); d = load_own(k, in, 1); }
  TRACKING = false;
  if (!d) { emitl("K object_not_obtainable"); _exit(0); }
  if (!ASAN_REPORTS.empty()) { emitl("K tainted_by_memory_error_in_build_or_load:" + ASAN_REPORTS[0].first); _exit(0); }
  for (int i = 0; i < cmd.nhist; i++) { A[hist[i]].run(c, d); }
  c.fails.clear(); ASAN_REPORTS.clear();
  uint64_t cur = image_hash();
  emitl(fmt("H %016lx", (unsigned long)cur));
  // The recorded state was reached after other (state-preserving) operations in the recording child; when a query allocates memory
  // that the object keeps (lazy initialisation), the new block's address depends on that allocation history and the hash differs on
  // replay although the history is the same.  The history is authoritative: note it and go on from the replayed state.
  if (have_expect && cur != expect_hash) emitl("N replay_reached_a_different_heap_image_(query-time_allocation_kept_by_the_object)");
  for (int oi = from; oi < (int)A.size(); oi++) {
    pg_op(A[oi].name.substr(0, 60).c_str());
    size_t nf = c.fails.size();
    str ans;
    try { ans = A[oi].run(c, d); } catch (...) { ans = "THREW"; }
    for (size_t i = nf; i < c.fails.size(); i++) emitl("F " + failure_json(c.fails[i]));
    for (auto &r : ASAN_REPORTS) emitl("A " + r.first + "\t" + A[oi].name.substr(0, 40));
    ASAN_REPORTS.clear();
    emitl("R " + fmt("%d ", oi) + ans);
    uint64_t h2 = image_hash();
    emitl(fmt("T %d %016lx %ld", oi, (unsigned long)h2, c.transitions));
    c.transitions = 0;
    if (h2 != cur) _exit(0);          // the object left this state: the parent continues from a fresh replay
  }
  emitl("D");
  _exit(0);
}

static Explored explore_object(const Cell &cell, int k, const Params &p, const str &src, int max_states, int max_depth, double op_timeout) {
  Explored E;
  std::vector<Op> A = make_alphabet(cell, k, p);
  struct St { std::vector<int> hist; uint64_t h; int next_op; };
  std::vector<St> states; std::map<uint64_t, int> seen;
  std::map<str, str> ref;          // op name -> answer in the initial state (= answer of a fresh copy)
  bool have_root = false;
  size_t qi = 0;
  auto fail = [&](const str &op, const str &sig, const str &detail, const std::vector<int> &hist) {
    Ctx c; c.prop = "C14"; c.set_cell(k, p, cell.S); c.src = src; c.cellinfo = fmt("pal=%s,stretch=%d,sigma=%d,L=%d,nf=2", PALETTES[cell.pal].name, cell.stretch, cell.sigma, cell.L);
    str hs; for (int oi : hist) hs += A[oi].name + " ; ";
    c.fail(op, sig, detail + " [history: " + hs + "]", hs);
    E.fails.push_back(c.fails[0]);
  };
  // root state is discovered by the first child
  states.reserve((size_t)max_states + 4);   // references into `states` are held across push_back below: never reallocate
  states.push_back({{}, 0, 0});
  int zcmd[2], zres[2], zstat[2];
  if (pipe(zcmd) || pipe(zres) || pipe(zstat)) exit(2);
  pid_t zygote = fork();
  if (zygote == 0) {
    close(zcmd[1]); close(zres[0]); close(zstat[0]);
    static Cmd zc;
    while (read(zcmd[0], &zc, sizeof zc) == (ssize_t)sizeof zc && !zc.quit) {
      pid_t ch = fork();
      if (ch == 0) { OUTFD = zres[1]; int dn = open("/dev/null", O_WRONLY); dup2(dn, 1); if (!getenv("VX_STDERR")) dup2(dn, 2); asan_init(); child_explore(cell, k, p, src, A, zc); _exit(0); }
      if (write(zstat[1], &ch, sizeof ch) < 0) _exit(1);
      int st = 0; waitpid(ch, &st, 0);
      if (write(zstat[1], &st, sizeof st) < 0) _exit(1);
    }
    _exit(0);
  }
  close(zcmd[0]); close(zres[1]); close(zstat[1]);
  struct ZyGuard { int c, r, s; pid_t z; ~ZyGuard() { Cmd q; memset(&q, 0, sizeof q); q.quit = 1; if (write(c, &q, sizeof q) < 0) {} close(c); close(r); close(s); int st; waitpid(z, &st, 0); } } zg{zcmd[1], zres[0], zstat[0], zygote};
  while (qi < states.size()) {
    St &s = states[qi];
    if ((int)s.hist.size() > max_depth) { E.capped = true; qi++; continue; }
    while (s.next_op < (int)A.size()) {
      memset((void *)PG, 0, sizeof(Progress));
      // ask the zygote (a process forked before this exploration started and never touching its heap since) for a child:
      // all children of one zygote start from the same heap, so block addresses are reproducible between replays
      Cmd cmd; memset(&cmd, 0, sizeof cmd);
      cmd.nhist = (int)std::min<size_t>(s.hist.size(), 32); for (int i = 0; i < cmd.nhist; i++) cmd.hist[i] = s.hist[i];
      cmd.from = s.next_op; cmd.expect = s.h; cmd.have_expect = have_root ? 1 : 0;
      if (write(zcmd[1], &cmd, sizeof cmd) != (ssize_t)sizeof cmd) exit(2);
      pid_t pid = 0; if (read(zstat[0], &pid, sizeof pid) != (ssize_t)sizeof pid) exit(2);
      str buf; char tmp[65536]; double last = now_s(); bool to = false; int st = 0; bool got_status = false;
      while (true) {
        struct pollfd pf[2] = {{zres[0], POLLIN, 0}, {zstat[0], POLLIN, 0}};
        int pr = poll(pf, 2, 200);
        if (pr > 0) {
          if (pf[0].revents & POLLIN) { ssize_t r = read(zres[0], tmp, sizeof tmp); if (r > 0) { buf.append(tmp, r); last = now_s(); } }
          if (pf[1].revents & POLLIN) { if (read(zstat[0], &st, sizeof st) == (ssize_t)sizeof st) got_status = true; }
          if (got_status) { // drain what is left of the child's output
            while (true) { struct pollfd q = {zres[0], POLLIN, 0}; if (poll(&q, 1, 0) <= 0) break; ssize_t r = read(zres[0], tmp, sizeof tmp); if (r <= 0) break; buf.append(tmp, r); }
            break; }
        } else if (now_s() - last > op_timeout && !to) { kill(pid, SIGKILL); to = true; }
      }
      bool done = false, moved = false; int last_op = s.next_op - 1; str last_ans;
      for (auto &line : split(buf, '\n')) {
        if (line.size() < 1) continue;
        char t = line[0]; str rest = line.size() > 2 ? line.substr(2) : "";
        if (t == 'H') { uint64_t h = strtoull(rest.c_str(), 0, 16); if (!have_root) { have_root = true; s.h = h; seen[h] = 0; E.states = 1; } }
        else if (t == 'K') { E.notes.push_back(rest); return E; }
        else if (t == 'N') { if (E.notes.size() < 8) E.notes.push_back(rest); }
        else if (t == 'F') { Failure f; auto get = [&](const char *key) { str pat = str("\"") + key + "\":\""; size_t a = rest.find(pat); if (a == str::npos) return str(); a += pat.size(); str o; while (a < rest.size() && rest[a] != '"') { if (rest[a] == '\\' && a + 1 < rest.size()) { if (rest[a + 1] == 'u') { o += (char)strtol(rest.substr(a + 2, 4).c_str(), 0, 16); a += 6; continue; } o += rest[a + 1]; a += 2; continue; } o += rest[a++]; } return o; };
          f.prop = "C14"; f.kind = get("kind"); f.params = get("params"); f.src = get("src"); f.op = get("op"); f.sig = get("sig"); f.preds = get("preds"); f.strings_hex = get("strings"); f.arg_hex = get("arg"); f.detail = get("detail"); f.cell = get("cell"); E.fails.push_back(f); }
        else if (t == 'A') { /* memory errors are C07's; noted */ size_t tb = rest.find('\t'); E.notes.push_back("asan:" + rest.substr(0, tb)); }
        else if (t == 'R') { size_t sp = rest.find(' '); last_op = atoi(rest.c_str()); last_ans = rest.substr(sp + 1);
          const Op &op = A[last_op];
          if (qi == 0) { if (!ref.count(op.name)) ref[op.name] = last_ans; else if (ref[op.name] != last_ans) fail(op.name.substr(0, 40), "same_query_twice_differs", "the same query gave '" + ref[op.name].substr(0, 80) + "' and then '" + last_ans.substr(0, 80) + "'", s.hist); }
          else { auto it = ref.find(op.name); if (it != ref.end() && it->second != last_ans) { std::vector<int> h2 = s.hist; fail(op.name.substr(0, 40), "answer_depends_on_history", "answer '" + last_ans.substr(0, 80) + "' differs from the fresh-copy answer '" + it->second.substr(0, 80) + "'", h2); } }
          if (!op.solo_a.empty()) {   // interleaved drains must equal the solo drains
            size_t bar = last_ans.find('|'); str ga = last_ans.substr(0, bar), gb = bar == str::npos ? "" : last_ans.substr(bar + 1);
            auto solo = [&](const str &w) { auto it = ref.find(w); return it == ref.end() ? str("?") : it->second; };
            str sa = solo(op.solo_a), sb = solo(op.solo_b);
            auto norm = [](str x) { if (x == "NULLIT") return str("NULLIT"); return x; };
            if (sa != "?" && norm(ga) != norm(sa) && !(sa == "NULLIT" && ga.empty())) fail(op.name.substr(0, 40), "interleaved_drain_differs", "iterator " + op.solo_a.substr(0, 20) + " gave '" + ga.substr(0, 60) + "' interleaved but '" + sa.substr(0, 60) + "' alone", s.hist);
            if (sb != "?" && norm(gb) != norm(sb) && !(sb == "NULLIT" && gb.empty())) fail(op.name.substr(0, 40), "interleaved_drain_differs", "iterator " + op.solo_b.substr(0, 20) + " gave '" + gb.substr(0, 60) + "' interleaved but '" + sb.substr(0, 60) + "' alone", s.hist);
          } }
        else if (t == 'T') { int oi; unsigned long h; long calls; sscanf(rest.c_str(), "%d %lx %ld", &oi, &h, &calls); E.transitions++; E.api_calls += calls;
          if ((uint64_t)h == s.h) { E.selfloops++; s.next_op = oi + 1; }
          else { E.changes++; moved = true; s.next_op = oi + 1;
            E.notes.push_back("image_changed_by:" + A[oi].name.substr(0, 12));
            if (!seen.count(h)) { if ((int)states.size() >= max_states) E.capped = true; else { seen[h] = (int)states.size(); std::vector<int> nh = states[qi].hist; nh.push_back(oi); states.push_back({nh, (uint64_t)h, 0}); E.states++; } } } }
        else if (t == 'D') done = true;
      }
      St &s2 = states[qi];   // (vector may have reallocated)
      if (!done && !moved) {
        // the child died inside an operation
        int dead = s2.next_op; str how = to ? "timeout" : (WIFSIGNALED(st) ? fmt("fatal:signal%d", WTERMSIG(st)) : fmt("fatal:exit%d", WIFEXITED(st) ? WEXITSTATUS(st) : -1));
        str sig = how; if (!to && PG->asan_n > 0) sig = "fatal:" + str(PG->asan_sig[PG->asan_n - 1]);
        str opn = str(PG->op);
        if (opn == "build" || opn == "load_own" || !have_root) { E.notes.push_back("blocked:" + opn + ":" + sig); return E; }
        if (dead < (int)A.size()) {
          // a crash in the initial state on a plain query is C01-C07's business (they run the same call on a fresh object);
          // C14 reports it only when the history matters: the same op did not crash from the initial state
          bool root = (qi == 0);
          E.notes.push_back(str(root ? "crash_in_initial_state:" : "crash_after_history:") + A[dead].name.substr(0, 12) + ":" + sig);
          if (!root && ref.count(A[dead].name)) fail(A[dead].name.substr(0, 40), "crash_depends_on_history:" + sig, "operation crashes after this history but answered '" + ref[A[dead].name].substr(0, 60) + "' on a fresh copy", s2.hist);
          s2.next_op = dead + 1;
        } else break;
      }
    }
    qi++;
  }
  return E;
}

int main(int argc, char **argv) {
  str scope_s, out, shard = "0/1", one_kind, one_params, one_strings, one_src = "fresh", one_pal = "abc";
  double deadline = 1e18; int max_states = 64, max_depth = 4; bool one = false; int one_sigma = 2, one_L = 2, one_stretch = 1;
  for (int i = 1; i < argc; i++) { str a = argv[i]; auto nx = [&]() { return str(i + 1 < argc ? argv[++i] : ""); };
    if (a == "--scope") scope_s = nx(); else if (a == "--out") out = nx(); else if (a == "--shard") shard = nx(); else if (a == "--deadline") deadline = now_s() + atof(nx().c_str());
    else if (a == "--max-states") max_states = atoi(nx().c_str()); else if (a == "--max-depth") max_depth = atoi(nx().c_str());
    else if (a == "--one") one = true; else if (a == "--kind") one_kind = nx(); else if (a == "--params") one_params = nx(); else if (a == "--strings") one_strings = nx();
    else if (a == "--src") one_src = nx(); else if (a == "--pal") one_pal = nx(); else if (a == "--sigma") one_sigma = atoi(nx().c_str()); else if (a == "--L") one_L = atoi(nx().c_str()); else if (a == "--stretch") one_stretch = atoi(nx().c_str());
    else if (a == "--prop") nx(); }
  __sanitizer_install_malloc_and_free_hooks(mhook, fhook);
  pg_init();
  double t0 = now_s();
  long units = 0, objects = 0, states = 0, transitions = 0, selfloops = 0, changes = 0, api_calls = 0, blocked = 0, capped = 0, alphabet_max = 0;
  std::map<str, Failure> first; std::map<str, long> count; std::map<str, long> notes; std::vector<str> samples; bool complete = true; long units_total = 0;
  auto absorb = [&](const Explored &E, const Cell &cell, int k, const Params &p, const str &src, size_t asz) {
    objects++; states += E.states; transitions += E.transitions; selfloops += E.selfloops; changes += E.changes; api_calls += E.api_calls; if (E.capped) capped++;
    if ((long)asz > alphabet_max) alphabet_max = asz;
    for (auto &n : E.notes) { notes[fmt("%s/%s:", KNAME[k], src.c_str()) + n]++; if (n.compare(0, 7, "blocked") == 0 || n.compare(0, 7, "tainted") == 0 || n.compare(0, 6, "object") == 0) blocked++; }
    for (auto &f : E.fails) { str key = f.key() + "|" + f.preds; count[key]++; if (!first.count(key)) first[key] = f; }
    if (samples.size() < 4 && E.states > 0) { str s = "{\"kind\":\"" + str(KNAME[k]) + "\",\"params\":\"" + p.s() + "\",\"source\":\"" + src + "\",\"strings\":["; for (size_t i = 0; i < cell.S.size() && i < 6; i++) s += str(i ? "," : "") + "\"" + jesc(show(cell.S[i])) + "\""; s += fmt("],\"alphabet\":%zu,\"states\":%ld,\"transitions\":%ld,\"self_loops\":%ld}", asz, E.states, E.transitions, E.selfloops); samples.push_back(s); }
  };
  if (one) {
    Cell cell; cell.sigma = one_sigma; cell.L = one_L; cell.stretch = one_stretch; cell.pal = pal_by_name(one_pal);
    if (!one_strings.empty() && one_strings[0] == '@') { std::ifstream sf(one_strings.substr(1)); std::stringstream ss; ss << sf.rdbuf(); one_strings = ss.str(); while (!one_strings.empty() && (one_strings.back() == '\n' || one_strings.back() == ' ')) one_strings.pop_back(); }
    for (auto &h : split(one_strings, ',')) if (!h.empty()) cell.S.push_back(unhex(h));
    std::sort(cell.S.begin(), cell.S.end(), ult);
    cell.Q = query_universe(PALETTES[cell.pal], one_sigma, one_L, one_stretch, 2);
    int k = kind_by_name(one_kind); Params p = Params::parse(one_params);
    Explored E = explore_object(cell, k, p, one_src, max_states, max_depth, 30);
    for (auto &f : E.fails) printf("F %s\n", failure_json(f).c_str());
    for (auto &n : E.notes) printf("N %s\n", n.c_str());
    printf("S states=%ld transitions=%ld selfloops=%ld changes=%ld\n", E.states, E.transitions, E.selfloops, E.changes);
    return 0;
  }
  Scope sc = Scope::parse(scope_s);
  strs U; scope_universe(sc, U);
  std::vector<setmask> sets = enum_sets(sc, U);
  int si = atoi(shard.c_str()), sn = atoi(shard.substr(shard.find('/') + 1).c_str());
  long idx = 0;
  for (setmask mask : sets) for (int pal : sc.pals) for (int st : sc.stretches) for (int pre : sc.pres) {
    long my = idx++; units_total++;
    if (my % sn != si) continue;
    if (now_s() > deadline) { complete = false; continue; }
    Unit u = {mask, pal, st, pre}; Cell cell = make_cell(sc, U, u); units++;
    for (int k : sc.kinds) for (auto &p : param_domain(k, sc.pd, cell.S, "C14")) for (const char *src : {"fresh", "own:1"}) {
      if (now_s() > deadline) { complete = false; break; }
      size_t asz = make_alphabet(cell, k, p).size();
      Explored E = explore_object(cell, k, p, src, max_states, max_depth, 20);
      absorb(E, cell, k, p, src, asz);
    }
  }
  FILE *f = out.empty() ? stdout : fopen(out.c_str(), "w");
  fprintf(f, "{\"prop\":\"C14\",\"scope\":\"%s\",\"complete\":%s,\"units_total\":%ld,\"units\":%ld,\"objects\":%ld,\"states\":%ld,\"transitions\":%ld,\"self_loops\":%ld,\"image_changes\":%ld,"
             "\"api_calls\":%ld,\"blocked\":%ld,\"capped\":%ld,\"alphabet_max\":%ld,\"sets\":%zu,\"universe\":%zu,\"wall_s\":%.2f,\n\"notes\":{",
          sc.s.c_str(), complete ? "true" : "false", units_total, units, objects, states, transitions, selfloops, changes, api_calls, blocked, capped, alphabet_max, sets.size(), U.size(), now_s() - t0);
  { bool fi = true; for (auto &kv : notes) { fprintf(f, "%s\"%s\":%ld", fi ? "" : ",", jesc(kv.first).c_str(), kv.second); fi = false; } }
  fprintf(f, "},\n\"samples\":[");
  for (size_t i = 0; i < samples.size(); i++) fprintf(f, "%s%s", i ? "," : "", samples[i].c_str());
  fprintf(f, "],\n\"failures\":[\n");
  { bool fi = true; for (auto &kv : first) { str j = failure_json(kv.second); j.pop_back(); fprintf(f, "%s%s,\"count\":%ld}", fi ? "" : ",\n", j.c_str(), count[kv.first]); fi = false; } }
  fprintf(f, "\n]}\n");
  if (f != stdout) fclose(f);
  return 0;
}
