# vlib.py -- shared driver code for ./check: builds, shard fan-out, symbolisation, known findings, evidence.
import json, os, re, subprocess, sys, time, hashlib, shutil

VERIF = os.path.dirname(os.path.abspath(__file__))
REPO = os.environ.get('LIBCSD_REPO', '/repo')
NPROC = int(os.environ.get('VERIF_JOBS', '16'))

# AddressSanitizer inflates stack frames several times: the recursive trie insertion of the XBW builder (depth = string
# length) overflows the default 8 MiB stack on a 16 KiB string under ASan, while the uninstrumented library handles
# 60 000-byte strings with it.  The harness processes therefore get a 256 MiB stack (set before they are exec'ed).
try:
    import resource
    _soft, _hard = resource.getrlimit(resource.RLIMIT_STACK)
    _want = 256 << 20
    if _hard != resource.RLIM_INFINITY:
        _want = min(_want, _hard)
    if _soft != resource.RLIM_INFINITY and _soft < _want:
        resource.setrlimit(resource.RLIMIT_STACK, (_want, _hard))
except Exception:
    pass


def sh(cmd, **kw):
    return subprocess.run(cmd, shell=isinstance(cmd, str), stdout=subprocess.PIPE, stderr=subprocess.PIPE, text=True, **kw)


def build_tool(flavour, tool):
    r = sh([os.path.join(VERIF, 'mk.sh'), flavour, tool])
    if r.returncode != 0:
        sys.stderr.write(r.stdout + r.stderr)
        raise SystemExit(2)
    return r.stdout.strip().splitlines()[-1]


_symcache = {}


def symbolise(binary, offsets):
    """offsets: iterable of '+0x1234' -> function names (innermost inline frame)"""
    need = [o for o in set(offsets) if (binary, o) not in _symcache]
    if need:
        p = subprocess.run(['addr2line', '-f', '-C', '-i', '-e', binary] + [o.lstrip('+') for o in need],
                           stdout=subprocess.PIPE, text=True)
        lines = p.stdout.splitlines()
        # with -i several (function, file:line) pairs may be printed per address; re-run one by one if counts differ
        if len(lines) == 2 * len(need):
            for o, i in zip(need, range(0, len(lines), 2)):
                _symcache[(binary, o)] = _fn(lines[i], lines[i + 1])
        else:
            for o in need:
                q = subprocess.run(['addr2line', '-f', '-C', '-i', '-e', binary, o.lstrip('+')], stdout=subprocess.PIPE, text=True).stdout.splitlines()
                _symcache[(binary, o)] = _fn(q[0], q[1]) if len(q) >= 2 else o
    return {o: _symcache[(binary, o)] for o in offsets}


def _fn(func, loc):
    func = re.sub(r'\(.*', '', func).strip()
    f = loc.split(':')[0]
    f = f.replace(REPO + '/', '').replace(VERIF + '/', 'verif/')
    f = os.path.basename(f) if f.startswith('/') else f
    return '%s[%s]' % (func, f)


SIG_OFF = re.compile(r'\+0x[0-9a-f]+')


def symbolise_sig(binary, sig):
    offs = SIG_OFF.findall(sig)
    if not offs:
        return sig
    m = symbolise(binary, offs)
    return SIG_OFF.sub(lambda x: m[x.group(0)], sig)


def run_bx_scope(binary, prop, scope, deadline_s, outdir, subtimeout=20, nshards=None):
    """fan one scope out over NPROC shards; returns merged dict"""
    nshards = nshards or NPROC
    os.makedirs(outdir, exist_ok=True)
    procs = []
    tag = hashlib.sha1(scope.encode()).hexdigest()[:8]
    for i in range(nshards):
        out = os.path.join(outdir, 'bx.%s.%s.%d.json' % (prop, tag, i))
        cmd = [binary, '--prop', prop, '--scope', scope, '--shard', '%d/%d' % (i, nshards), '--out', out,
               '--deadline', str(max(1, deadline_s)), '--subtimeout', str(subtimeout)]
        procs.append((subprocess.Popen(cmd, stdout=subprocess.DEVNULL, stderr=subprocess.PIPE), out))
    merged = {'scope': scope, 'complete': True, 'units_total': 0, 'units': 0, 'subcells': 0, 'objects': 0, 'transitions': 0,
              'blocked': 0, 'fatals': 0, 'timeouts': 0, 'asan_reports': 0, 'failures': [], 'samples': [], 'blocked_why': {},
              'notes': {}, 'asan_sigs': {}, 'sets': 0, 'universe': 0}
    for p, out in procs:
        _, err = p.communicate()
        if p.returncode != 0 or not os.path.exists(out):
            sys.stderr.write('bx shard failed rc=%s: %s\n' % (p.returncode, err.decode(errors='replace')[-2000:]))
            raise SystemExit(2)
        d = json.load(open(out))
        os.unlink(out)
        merged['complete'] = merged['complete'] and d['complete']
        merged['units_total'] = d['units_total']
        merged['sets'] = d['sets']
        merged['universe'] = d['universe']
        for k in ('units', 'subcells', 'objects', 'transitions', 'blocked', 'fatals', 'timeouts', 'asan_reports'):
            merged[k] += d[k]
        for k in ('blocked_why', 'notes', 'asan_sigs'):
            for a, b in d[k].items():
                merged[k][a] = merged[k].get(a, 0) + b
        merged['failures'] += d['failures']
        if len(merged['samples']) < 6:
            merged['samples'] += d['samples'][:2]
    # symbolise
    for f in merged['failures']:
        f['sig'] = symbolise_sig(binary, f['sig'])
    for k in ('blocked_why', 'asan_sigs'):
        merged[k] = {symbolise_sig(binary, a): b for a, b in merged[k].items()}
    return merged


# ------------------------------------------------------------------ known findings
def load_known():
    p = os.path.join(VERIF, 'known_findings.json')
    if not os.path.exists(p):
        return {'findings': [], 'fixed': []}
    return json.load(open(p))


def match_known(f, known):
    """f: failure record (dict with prop, kind, src, op, sig, preds). Returns the finding id or None."""
    preds = set(f.get('preds', '').split(','))
    for k in known['findings']:
        if k['property'] != f['prop']:
            continue
        if 'kinds' in k and f['kind'] not in k['kinds']:
            continue
        if 'ops' in k and f['op'] not in k['ops']:
            continue
        if 'srcs' in k and not any(f['src'].startswith(s) for s in k['srcs']):
            continue
        if 'sig' in k and not re.search(k['sig'], f['sig']):
            continue
        if 'when' in k and not all(p in preds for p in k['when']):
            continue
        if 'input' in k and not re.search(k['input'], f.get('input', '')):
            continue
        return k['id']
    return None


def write_evidence(prop, tier, seed, coverage, wall, violations, assumptions, level='model_checking'):
    evdir = os.environ.get('VERIF_EVIDENCE_DIR', os.path.join(VERIF, 'evidence'))
    os.makedirs(evdir, exist_ok=True)
    ev = {'property_id': prop, 'tier': tier, 'seed': seed, 'level': level, 'coverage': coverage,
          'assumptions': assumptions, 'wall_s': round(wall, 2), 'violations': violations}
    tmp = os.path.join(evdir, prop + '.json.tmp')
    json.dump(ev, open(tmp, 'w'), indent=1)
    os.replace(tmp, os.path.join(evdir, prop + '.json'))
