#!/usr/bin/env python3
# triage helper: tools/tri.py PROP "scope" -> symbolised failure table
import sys, os, json, collections
sys.path.insert(0, os.path.dirname(os.path.dirname(os.path.abspath(__file__))))
import vlib
prop, scope = sys.argv[1], sys.argv[2]
flav = sys.argv[3] if len(sys.argv) > 3 else 'asan'
b = vlib.build_tool(flav, 'bx')
m = vlib.run_bx_scope(b, prop, scope, 3600, '/tmp/tri')
fs = m.pop('failures')
print({k: v for k, v in m.items() if k not in ('samples',)})
agg = collections.OrderedDict()
for f in sorted(fs, key=lambda f: (f['kind'], f['src'], f['op'], f['sig'])):
    k = (f['kind'], f['src'], f['op'], f['sig'])
    a = agg.setdefault(k, {'count': 0, 'preds': None, 'ex': f})
    a['count'] += f['count']
    ps = set(f['preds'].split(','))
    a['preds'] = ps if a['preds'] is None else (a['preds'] & ps)
for k, a in agg.items():
    f = a['ex']
    print('%-10s %-6s %-14s %-60s n=%-5d common=%s | %s | S=%s p=%s arg=%s' % (k[0], k[1], k[2], k[3][:60], a['count'], ','.join(sorted(a['preds'])), f['detail'][:90], f['strings'][:60], f['params'], f['arg'][:40]))
