#!/bin/bash
# tools/mutcheck.sh <seeded-dir> <PROP> [tier]  -- run a check against a scratch worktree of /repo with the seeded patch applied
set -e
D="$1"; P="$2"; T="${3:-quick}"
WT=/tmp/mt_$(basename $D)
if [ ! -d "$WT" ]; then git -C /repo worktree add -q "$WT" HEAD; git -C "$WT" apply --whitespace=nowarn "$(realpath $D/patch.diff)"; fi
cd /verif
set +e
mkdir -p /tmp/mutcheck_ev /tmp/mutcheck_rp
LIBCSD_REPO="$WT" VERIF_EVIDENCE_DIR=/tmp/mutcheck_ev VERIF_REPLAY_DIR=/tmp/mutcheck_rp VERIF_DEADLINE="${VERIF_DEADLINE:-600}" ./check "$P" --tier "$T" > /tmp/mutcheck.$(basename $D).$P.log 2>&1
rc=$?
echo "$(basename $D) $P $T rc=$rc : $(grep -c '^VIOLATION' /tmp/mutcheck.$(basename $D).$P.log) violations; $(grep -A1 '^VIOLATION' /tmp/mutcheck.$(basename $D).$P.log | grep '^   ' | head -2 | cut -c1-220 | tr '\n' ' ')"
