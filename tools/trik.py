#!/usr/bin/env python3
# triage helper like tri.py, but drops failures matched by known_findings.json and prints full witness strings
import sys, os, json, collections
sys.path.insert(0, os.path.dirname(os.path.dirname(os.path.abspath(__file__))))
import vlib
prop, scope = sys.argv[1], sys.argv[2]
flav = sys.argv[3] if len(sys.argv) > 3 else 'asan'
b = vlib.build_tool(flav, 'bx')
m = vlib.run_bx_scope(b, prop, scope, 3600, '/tmp/tri')
fs = m.pop('failures')
known = vlib.load_known()
print({k: v for k, v in m.items() if k in ('complete', 'units', 'subcells', 'objects', 'transitions', 'blocked', 'fatals', 'timeouts', 'asan_reports', 'sets', 'universe')})
print('blocked_why', m['blocked_why'])
n = 0
seen = set()
for f in sorted(fs, key=lambda f: (f['kind'], f['src'], f['op'], f['sig'])):
    f['prop'] = prop
    if vlib.match_known(f, known):
        continue
    k = (f['kind'], f['op'], f['sig'])
    if k in seen: continue
    seen.add(k); n += 1
    print('%s %s %s %s p=%s S=%s arg=%s preds=%s :: %s' % (f['kind'], f['src'], f['op'], f['sig'][:90], f['params'], f['strings'], f['arg'][:40], f['preds'], f['detail'][:120]))
print('unknown failure classes:', n)
