#!/usr/bin/env python3
# regenerates MANIFEST.json from the table below (keeps it valid at all times)
import json, os, subprocess
V = os.path.dirname(os.path.dirname(os.path.abspath(__file__)))
hooks_commits = subprocess.run(['git', '-C', '/repo', 'log', '--format=%H %s', '--grep', '^hook:'], stdout=subprocess.PIPE, text=True).stdout.split('\n')
hooks_commits = [l.split()[0] for l in hooks_commits if l.strip()]
BXT = 'bounded-exhaustive enumeration of input sets x parameters x sources x query universe on the real code against a reference model (explicit-state, fork-per-cell, ASan)'
checks = {
 'C01': ('BX', BXT, 'every string set of the declared scopes, every kind/parameter vector/source: locate/extract round trip compared with the sorted-vector model', '3'),
 'C02': ('BX', BXT, 'whole query universe minus S and the bad-ID list; NORESULT/NULL expected', '3'),
 'C03': ('BX', BXT, 'extract(i) = i-th smallest, rank operations; signed-char palette makes unsigned order observable', '3'),
 'C04': ('BX', BXT, 'every pattern of the query universe against every prefix-capable kind; exact ID range / string list', '3'),
 'C05': ('BX', BXT, 'every pattern against FMINDEX (both bitmap kinds, samplings) and XBW; exact ID set', '3'),
 'C06': ('BX', BXT, 'observation vector of every reloaded object (generic/own loader, every load option, re-saved reload) equals that of the built object; concatenated images consume exactly their bytes', '5'),
 'C07': ('BX', BXT + '; every sub-cell isolated in its own process; heap-fill differential (0xA5/0x5A); small-MEMALLOC flavour for buffer growth', 'no ASan report, no fatal signal, no timeout, no dependence on heap fill bytes over all operations of all oracles, both MEMALLOC flavours', '5'),
 'C08': ('BX', BXT, 'save twice, answers before/after, rebuild image equality, image independence from heap fill byte, re-save of loaded objects', '5'),
 'C09': ('SX+BX', 'stateless model checking of the real block constructor under a controlled scheduler (pthread interposition, iterative preemption bounding; for one worker and two blocks all interleavings, closed by happens-before state matching) + exhaustive cut/thread-count enumeration with a worker-dependent heap fill', 'every schedule up to the preemption bound for 1-3 blocks x 1-3 workers, every interleaving for producer + one worker: image identical to the single-thread image, all blocks complete; every cut size x thread count on the small scopes', '4.3'),
 'C10': ('SX', 'stateless model checking of the real WorkerPool under a controlled scheduler (pthread interposition, iterative preemption bounding, deadlock = no enabled thread) + stateful search without preemption bound, closed by happens-before state matching, for the one-worker configurations (validated against the full stateless enumeration)', 'drivers D1-D5 x workers<=3 x tasks<=3 up to the preemption bound, and ALL interleavings for one worker x 0-3 tasks: no deadlock, every task exactly once, no re-entrancy, wait_workers returns', '4.3'),
 'C11': ('SX', 'the same schedule exploration under ThreadSanitizer: vector-clock race detection on every explored schedule (hand-off invisible to TSan)', 'zero TSan reports on every explored schedule of the pool drivers and the block constructor', '4.3'),
 'C12': ('BX', BXT, 'observation vectors equal across all parameter vectors of a kind (ID-free for hash kinds), across order-preserving kinds, bucket size <2 behaves as 2 with a warning', '5'),
 'C13': ('BX', BXT, 'table scan and every iterator drained: count, order, strlen, termination, no duplicate IDs', '5'),
 'C14': ('HX', 'explicit-state search over call histories: state = heap image of the object, BFS over an alphabet of all query operations, failed look-ups, unsupported operations, save and all interleavings of two open iterators; every step replayed on the real object in a forked child', 'answers equal the fresh-copy answers in every reachable state; if every operation is a self-loop on the image the invariant holds for histories of any length; caller pattern compared byte-wise after every call', '4.1'),
 'C15': ('BX', BXT, 'numElements and maxLength against the model, fresh and reloaded', '5'),
 'C16': ('BX', BXT + '; tag sweep of the generic loader', 'unsupported operations return null/0 and leave the object usable; every kind loader rejects every other kind image; generic loader rejects unknown tags', '5'),
 'C17': ('KX', 'exhaustive enumeration of component inputs (VByte: every uint32 in the thorough tier; LogSequence: widths 1..64 x positions x overwrite pairs; DAC: all small sequence lists) against plain-array definitions', 'round trip of every value / field / sequence incl. save-load', '4.2'),
 'C18': ('KX+BX', 'enumeration of frequency-vector families (prefix-freeness, Kraft equality, Hu-Tucker order) + dictionary-level encode/decode on exhaustive string sets', 'code tables and table decoding', '4.2'),
 'C19': ('KX', 'all bit vectors up to length 14 and all vectors within Hamming distance 2 of zeros/ones/alternating at word/sample boundaries x every bitmap variant; all sequences up to length 7 for both wavelet trees; against plain definitions, before and after save/load', 'access/rank/select agreement', '4.2'),
 'C20': ('KX+BX', 'all 0-terminated string sequences over {1,2} (<=12 symbols) and {1,2,3} (<=8) in every order + repetitive shapes through the real compressor, expansion by the gap-pointer walk; dictionary-level round trip on exhaustive sets', 'lossless, terminator-free rules, bit width sufficient, grammar save/load', '4.2'),
}
m = {
 'version': 1,
 'setup_cmd': 'cd /verif && ./setup.sh',
 'hooks': {'guard': 'LIBCSD_VERIF', 'enable': 'checks compile every library translation unit of /repo themselves (build.sh) with -DLIBCSD_VERIF; the asan-grow flavour adds -DLIBCSD_VERIF_MEMALLOC=8',
           'baseline_off_cmd': 'cmake -S /repo -B /repo/_build -G Ninja -DCMAKE_BUILD_TYPE=RelWithDebInfo -DCMAKE_CXX_FLAGS=-Wno-error >/dev/null && cmake --build /repo/_build >/dev/null && ctest --test-dir /repo/_build -j8 --timeout 900',
           'source_commits': hooks_commits, 'add_only': True},
 'engines': [
  {'name': 'BX', 'path': 'src/bx.cpp', 'serves_properties': ['C01','C02','C03','C04','C05','C06','C07','C08','C09','C12','C13','C15','C16','C17','C18','C20'], 'kind_free_text': 'bounded-exhaustive dictionary explorer against a reference model'},
  {'name': 'SX', 'path': 'src/sx.cpp + src/sx/sched.c', 'serves_properties': ['C09','C10','C11'], 'kind_free_text': 'controlled scheduler over interposed pthreads; preemption-bounded stateless search and unbounded search with happens-before state matching'},
  {'name': 'HX', 'path': 'src/hx.cpp', 'serves_properties': ['C14'], 'kind_free_text': 'explicit-state search over call histories with heap-image states'},
  {'name': 'KX', 'path': 'src/kx.cpp', 'serves_properties': ['C17','C18','C19','C20'], 'kind_free_text': 'component explorers'},
 ],
 'checks': [], 'not_applicable': [],
 'notes': 'All checks: ./check <ID> --tier quick|thorough. Known genuine defects that are not repaired are listed in known_findings.json and printed as KNOWN-FINDING lines.',
}
for pid in sorted(checks):
    eng, tech, text, ref = checks[pid]
    m['checks'].append({'property_id': pid, 'quick_cmd': './check %s --tier quick' % pid, 'thorough_cmd': './check %s --tier thorough' % pid,
        'evidence_file': 'evidence/%s.json' % pid, 'replay_cmd_template': './check %s --replay {path}' % pid, 'engine': eng,
        'level_claimed': {'category': 'model_checking', 'text': text + '. Exhaustive within the bounds recorded in the evidence file; says nothing beyond them.', 'design_ref': 'DESIGN.md section ' + ref},
        'level_note': 'trusted: gcc 12 + sanitizer runtimes, glibc, the reference models in src/, the interposition layer (replay-twice rule); small-scope hypothesis as stated in DESIGN.md section 8',
        'technique': tech})
NA = json.load(open(os.path.join(V, 'tools', 'not_applicable.json')))
claimed = set(checks)
for pid, reason in NA.items():
    if pid not in claimed:
        m['not_applicable'].append({'property_id': pid, 'reason': reason})
json.dump(m, open(os.path.join(V, 'MANIFEST.json'), 'w'), indent=1)
print('wrote MANIFEST.json with', len(m['checks']), 'checks')
