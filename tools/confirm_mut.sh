#!/bin/bash
# tools/confirm_mut.sh <worktree> <seeded-id>
# Independent confirmation of a seeded change delivered by a sub-agent in <worktree>/MUTANT:
#   1. a pristine scratch worktree of /repo HEAD + patch.diff compiles and the pinned suite passes,
#   2. demo.cpp fails against the changed library and passes against /repo's own build,
# then copies patch.diff/demo/README into /verif/seeded/<seeded-id>/ and prints a one-line verdict.
set -u
WT="$1"; ID="$2"
M="$WT/MUTANT"
S=/tmp/cf_$ID
rm -rf "$S"; git -C /repo worktree prune
git -C /repo worktree add -q --detach "$S" HEAD || exit 2
( cd "$S" && git apply --whitespace=nowarn "$M/patch.diff" ) || { echo "$ID: patch does not apply to /repo HEAD"; git -C /repo worktree remove --force "$S"; exit 2; }
( cd "$S" && cmake -S . -B _build -G Ninja -DCMAKE_BUILD_TYPE=RelWithDebInfo -DCMAKE_CXX_FLAGS=-Wno-error >/dev/null && cmake --build _build >/dev/null 2>&1 ) ; comp=$?
( cd "$S" && ctest --test-dir _build -j8 2>&1 | grep -q "100% tests passed" ) ; suite=$?
EXTRA=""; [ -f "$M/demo_flags.txt" ] && EXTRA="$(cat $M/demo_flags.txt)"
g++ -std=c++17 -O1 -g -I"$S" -I"$S/libcds/includes" "$M/demo.cpp" "$S/_build/libCSD.a" "$S/_build/libcds/libcds.a" -lpthread $EXTRA -o "$S/demo_mut" 2>/dev/null
g++ -std=c++17 -O1 -g -I/repo -I/repo/libcds/includes "$M/demo.cpp" /repo/_build/libCSD.a /repo/_build/libcds/libcds.a -lpthread $EXTRA -o "$S/demo_orig" 2>/dev/null
( cd "$S" && timeout 600 ./demo_mut > demo_mut.out 2>&1 ); rm=$?
grep -q "FAIL" "$S/demo_mut.out" && [ $rm -eq 0 ] && rm=1
( cd "$S" && timeout 600 ./demo_orig > demo_orig.out 2>&1 ); ro=$?
grep -q "FAIL" "$S/demo_orig.out" && ro=1
echo "$ID: compiles=$comp(0 ok) suite=$suite(0 ok) demo_mut_rc=$rm(!=0 expected) demo_orig_rc=$ro(0 expected)"
mkdir -p /verif/seeded/$ID
cp "$M/patch.diff" /verif/seeded/$ID/patch.diff
cp "$M/demo.cpp" /verif/seeded/$ID/demo.cpp
cp "$M/README.md" /verif/seeded/$ID/AGENT_README.md 2>/dev/null
for f in "$M"/*.sh "$M"/*.h "$M"/finder.cpp; do [ -f "$f" ] && cp "$f" /verif/seeded/$ID/; done 2>/dev/null
git -C /repo worktree remove --force "$S"
