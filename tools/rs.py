# rs.py -- newline-preserving substitution for /repo sources (several files use CRLF)
import sys
def sub(path, old, new, count=1):
    s = open(path, 'rb').read()
    crlf = b'\r\n' in s
    o = old.encode(); n = new.encode()
    if crlf:
        o = o.replace(b'\r\n', b'\n').replace(b'\n', b'\r\n'); n = n.replace(b'\r\n', b'\n').replace(b'\n', b'\r\n')
    c = s.count(o)
    assert c == count, '%s: expected %d occurrence(s), found %d' % (path, count, c)
    open(path, 'wb').write(s.replace(o, n))
