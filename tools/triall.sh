#!/bin/bash
# tools/triall.sh KINDS "scope-prefix"   : run all BX properties for the kinds
K="$1"; SC="${2:-sigma=2,L=2,pd=quick}"
for p in C01 C02 C03 C04 C05 C06 C07 C08 C12 C13 C15 C16; do
  echo "=== $p"; tools/tri.py $p "$SC,kinds=$K" 2>&1 | cut -c1-${W:-300} | grep -v "^{'scope" | head -${N:-40}
done
