#!/bin/bash
# build.sh <flavour>  -- compile every library translation unit of /repo's CURRENT working tree
# (the source lists of CMakeLists.txt and libcds/CMakeLists.txt, re-read on every call) with our
# own flags into /verif/build/<flavour>/<treehash>/libcsd.a and print that directory.
# The tree hash covers every *.cpp/*.h/*.hpp/CMakeLists.txt under /repo (excluding _build/.git),
# so an edited tree is always rebuilt and an unchanged tree is reused.
set -euo pipefail
FLAV="${1:?flavour}"
REPO="${LIBCSD_REPO:-/repo}"
VERIF="$(cd "$(dirname "$0")" && pwd)"
CXX="${CXX:-g++}"
case "$FLAV" in
  asan)      FLAGS="-O1 -g -fsanitize=address -fsanitize-recover=address -fno-omit-frame-pointer -DLIBCSD_VERIF" ;;
  asan-grow) FLAGS="-O1 -g -fsanitize=address -fsanitize-recover=address -fno-omit-frame-pointer -DLIBCSD_VERIF -DLIBCSD_VERIF_MEMALLOC=8" ;;
  tsan)      FLAGS="-O1 -g -fsanitize=thread -fno-omit-frame-pointer -DLIBCSD_VERIF" ;;
  plain)     FLAGS="-O2 -g -DLIBCSD_VERIF" ;;
  plain-grow) FLAGS="-O2 -g -DLIBCSD_VERIF -DLIBCSD_VERIF_MEMALLOC=8" ;;
  *) echo "unknown flavour $FLAV" >&2; exit 2 ;;
esac
FLAGS="$FLAGS -std=c++17 -w -fno-access-control -I$REPO -I$REPO/libcds/includes"

treehash() {
  (cd "$REPO" && find . \( -path ./_build -o -path ./.git \) -prune -o -type f \
      \( -name '*.cpp' -o -name '*.h' -o -name '*.hpp' -o -name 'CMakeLists.txt' \) -print0 \
      | LC_ALL=C sort -z | xargs -0 sha256sum | sha256sum | cut -c1-16)
}
H="$(treehash)"
OUT="$VERIF/build/$FLAV/$H"
mkdir -p "$VERIF/build/$FLAV"
exec 9>"$VERIF/build/$FLAV/.lock"
flock 9
if [ -f "$OUT/libcsd.a" ] && [ -f "$OUT/.ok" ]; then touch "$OUT"; echo "$OUT"; exit 0; fi
# keep only the three most recently used builds of other trees of this flavour (disk is limited; a check on another
# tree may still be running from one of them)
ls -1dt "$VERIF/build/$FLAV"/*/ 2>/dev/null | grep -v "/$H/" | tail -n +7 | while read -r d; do
  # never remove a build used within the last 4 hours: a long (thorough) check may still be running from it
  if [ -z "$(find "$d" -maxdepth 0 -mmin -240)" ]; then rm -rf "$d"; fi
done
rm -rf "$OUT"; mkdir -p "$OUT/obj"

# source lists: every "*.cpp" token of the two CMakeLists that is inside a set(..._srcs ...) block
srcs() {  # $1 = dir with CMakeLists.txt
  python3 - "$1" <<'EOF'
import re,sys,os
d=sys.argv[1]
t=open(os.path.join(d,'CMakeLists.txt')).read()
t=re.sub(r'#.*','',t)
seen=[]
for m in re.finditer(r'set\(\s*\w+_srcs(.*?)\)',t,re.S):
    for f in m.group(1).split():
        if f.endswith('.cpp') and f not in seen and os.path.exists(os.path.join(d,f)):
            seen.append(f)
for f in seen: print(os.path.join(d,f))
EOF
}
{ srcs "$REPO"; srcs "$REPO/libcds"; } > "$OUT/srcs.txt"
N=$(wc -l < "$OUT/srcs.txt")
[ "$N" -gt 20 ] || { echo "source list too short ($N)" >&2; exit 2; }
i=0
: > "$OUT/cmds.txt"
while read -r f; do
  i=$((i+1))
  o="$OUT/obj/$i.$(basename "$f" .cpp).o"
  echo "$CXX $FLAGS -c $f -o $o" >> "$OUT/cmds.txt"
done < "$OUT/srcs.txt"
if ! xargs -P "${VERIF_JOBS:-16}" -I{} sh -c '{} 2>>'"$OUT"'/compile.err || exit 255' < "$OUT/cmds.txt"; then
  echo "BUILD FAILED ($FLAV); see $OUT/compile.err" >&2
  tail -20 "$OUT/compile.err" >&2
  exit 3
fi
ar rcs "$OUT/libcsd.a" "$OUT"/obj/*.o
rm -rf "$OUT/obj"
echo "$FLAGS" > "$OUT/flags.txt"
touch "$OUT/.ok"
echo "$OUT"
