#!/bin/bash
# mk.sh <flavour> <tool>  -- build one harness binary against the library of /repo's current tree; prints its path
set -euo pipefail
FLAV="$1"; TOOL="$2"
VERIF="$(cd "$(dirname "$0")" && pwd)"
D="$("$VERIF/build.sh" "$FLAV")"
OUT="$D/$TOOL"
SRC="$VERIF/src/$TOOL.cpp"
if [ -x "$OUT" ] && [ "$OUT" -nt "$SRC" ] && [ -z "$(find "$VERIF/src" -name '*.hpp' -newer "$OUT" -print -quit)" ]; then echo "$OUT"; exit 0; fi
FLAGS="$(cat "$D/flags.txt")"
exec 8>"$D/.lock.$TOOL"; flock 8
g++ $FLAGS -I"$VERIF/src" "$SRC" "$D/libcsd.a" -lpthread -o "$OUT.tmp.$$" && mv "$OUT.tmp.$$" "$OUT"
echo "$OUT"
