#!/bin/bash
# mk.sh <flavour> <tool>  -- build one harness binary against the library of /repo's current tree; prints its path
set -euo pipefail
FLAV="$1"; TOOL="$2"
VERIF="$(cd "$(dirname "$0")" && pwd)"
D="$("$VERIF/build.sh" "$FLAV")"
OUT="$D/$TOOL"
SRC="$VERIF/src/$TOOL.cpp"
if [ -x "$OUT" ] && [ "$OUT" -nt "$SRC" ] && [ -z "$(find "$VERIF/src" \( -name '*.hpp' -o -name '*.h' -o -name '*.c' \) -newer "$OUT" -print -quit)" ]; then echo "$OUT"; exit 0; fi
FLAGS="$(cat "$D/flags.txt")"
exec 8>"$D/.lock.$TOOL"; flock 8
EXTRA=""
if [ "$TOOL" = "sx" ]; then
  # the scheduler core is C, compiled without any sanitizer
  gcc -O1 -g -fPIC -c "$VERIF/src/sx/sched.c" -I"$VERIF/src/sx" -o "$D/sched.$$.o"
  EXTRA="$D/sched.$$.o -ldl"
fi
g++ $FLAGS -I"$VERIF/src" "$SRC" $EXTRA "$D/libcsd.a" -lpthread -o "$OUT.tmp.$$" || { rm -f "$D/sched.$$.o"; exit 3; }
mv "$OUT.tmp.$$" "$OUT"
rm -f "$D/sched.$$.o"
echo "$OUT"
